import AscaVerif.Lemmas.ParseSpans2
import AscaVerif.Props.C17Lex
import AscaVerif.Props.C02Lex
/-! C17 for the rule parser: its errors are well placed, on every line.

    ALL 36 `RuleSyntaxError` variants lexer and parser can return are covered: the 24 that carry a token
    (`ExpectedArrow(Token)`, ...) and the three that carry a column (`UnknownCharacter`, `EmptyInput`, `EmptyOutput`)
    underline the parser's CURRENT token / its index, which is either a token of the lexer's list (whose span is inside
    the line: `Lex.lexLine_token_spans`) or the `Eol` the parser makes up after a comment, whose "position" is the token
    INDEX (two units are mixed here, as the property text says) - still inside `[0, len + 1]` because a line of `len`
    characters has at most `len + 1` tokens and the cursor never leaves the list before the final `Eol` is consumed;
    `WordBoundLoc` and the three word-boundary errors underline a `#` token; `EmptySet` and `OptLocError` underline from
    an opening bracket to the last token consumed (ordered, because the lexer's tokens are); the two
    `DiacriticDoesNotMeetPreReqs` errors underline the segment's token and then the diacritic's token, in that order
    (what the formatter's `" ".repeat(dia.start - elm.end)` needs); `UnexpectedDiacritic` underlines the last ITEM of a
    term and then the stray diacritic token - every item the term functions return occupies a proper interval of the line
    that ends where the token under the cursor begins, or earlier (`Lemmas/ParseItems.lean`: a segment with its
    parameters, a group, a variable, a set, a syllable or structure - whose end is ONE BEFORE the next token when no
    `:[...]` follows, `wpred` - ... function by function).  The theorem is proved by the step lemmas of
    `Lemmas/ParseSpans.lean` / `ParseSpans2.lean` (the progress lemmas of C02 once more, under the stronger
    invariant). -/
namespace Asca.Parse.Spans
open Asca.Parse
open Lex (Token TK)

variable {L : Nat}

theorem wellSpaced_count {lo total : Nat} : ∀ {toks : List Token}, Lex.WellSpaced lo total toks → toks ≠ [] → lo + toks.length ≤ total + 1
  | [], _, h => absurd rfl h
  | [t], hw, _ => by obtain ⟨h1, h2, h3, _⟩ := hw; simp; omega
  | t :: u :: r, hw, _ => by
    obtain ⟨h1, h2, h3, h4⟩ := hw
    have := wellSpaced_count (toks := u :: r) h4 (by simp)
    simp only [List.length_cons] at this ⊢; omega

theorem wellSpaced_sorted {lo total : Nat} : ∀ {toks : List Token}, Lex.WellSpaced lo total toks →
    ∀ (i j : Nat) (ti tj : Token), i < j → toks[i]? = some ti → toks[j]? = some tj → ti.stop ≤ tj.start
  | [], _, i, j, ti, tj, _, hi, _ => by simp at hi
  | t :: r, hw, i, j, ti, tj, hij, hi, hj => by
    obtain ⟨_, _, _, h4⟩ := hw
    cases j with
    | zero => omega
    | succ j' =>
      simp only [List.getElem?_cons_succ] at hj
      cases i with
      | zero =>
        simp only [List.getElem?_cons_zero, Option.some.injEq] at hi
        subst hi
        exact (Lex.wellSpaced_mem h4 tj (List.mem_of_getElem? hj)).1
      | succ i' =>
        simp only [List.getElem?_cons_succ] at hi
        exact wellSpaced_sorted h4 i' j' ti tj (by omega) hi hj

/-- what `Lex.lexLine_token_spans` gives, in the form the parser lemmas use -/
theorem toksOK_of_lex (src : Text) (toks : List Token) (h : Lex.lexLine src = .ok toks) : ToksOK src.length toks := by
  obtain ⟨hw, tl, hl, hk, _, _⟩ := Lex.lexLine_token_spans src toks h
  have hne : toks ≠ [] := by intro h0; rw [h0] at hl; simp at hl
  refine ⟨fun t ht => ?_, ?_, ?_, Lex.lexLine_numbers_fit src toks h, Lex.lexLine_tokens_ok src toks h, hne, wellSpaced_sorted hw⟩
  · have := Lex.wellSpaced_mem hw t ht; omega
  · have := wellSpaced_count hw hne; omega
  · intro i t hi hkind
    have hlt : i < toks.length := by
      apply Classical.byContradiction; intro hc
      have := List.getElem?_eq_none_iff.mpr (Nat.le_of_not_lt hc)
      rw [this] at hi; cases hi
    apply Classical.byContradiction; intro hc
    have hi' : i = toks.length - 1 := by omega
    rw [List.getLast?_eq_getElem?, ← hi', hi] at hl
    cases hl
    exact hkind hk

theorem expectArrow_le (s : PS) (hi : Inv L s) : Le L s (expectArrow s).2 := by
  unfold expectArrow
  rcases expect_cases s .arrow hi (by decide) with ⟨he, h1⟩ | he
  · simp only [he, if_true]; exact h1.toLe
  · simp only [he, Bool.false_eq_true, if_false]; exact expect_le s .greaterThan hi (by decide)

/-- `expect(Eol) || expect(Comment)`: it succeeds, or it leaves the state alone -/
theorem expectEnd_cases (s : PS) : (expectEnd s).1 = true ∨ expectEnd s = (false, s) := by
  unfold expectEnd PS.expect
  by_cases h1 : s.cur.kind = .eol
  · left; simp [h1]
  · by_cases h2 : s.cur.kind = .comment
    · left; simp [h1, h2]
    · right; simp [h1, h2]

theorem Spec.bindN {α β} {R : PS → PS → Prop} {s : PS} {x : PRes (α × PS)} {f : α × PS → PRes β}
    (hx : Spec L R s x) (hf : ∀ a s', R s s' → NoFuel L (f (a, s'))) : NoFuel L (x >>= f) := by
  cases x with
  | ok v => obtain ⟨a, s'⟩ := v; exact hf a s' hx
  | err e => exact hx
  | panic p => exact hx
  | outOfFuel p => exact hx

theorem ruleEnv_spans (input output : List (List PItem)) (s : PS) (hi : Inv L s) : NoFuel L (ruleEnv input output s) := by
  unfold ruleEnv
  refine Spec.bindN (getContext_spec s hi) (fun context s1 h1 => ?_)
  refine Spec.bindN (getExceptBlock_spec s1 h1.inv) (fun except s2 h2 => ?_)
  rcases expectEnd_cases s2 with he | he
  · rcases hx : expectEnd s2 with ⟨e, s3⟩
    rw [hx] at he
    simp only at he
    simp only [hx, he, if_true]
    trivial
  · simp only [he, Bool.false_eq_true, if_false]
    exact tokErr_ok _ s2 h2.inv

theorem ruleTail_spans (input : List (List PItem)) (s : PS) (hi : Inv L s) : NoFuel L (ruleTail input s) := by
  unfold ruleTail
  refine Spec.bindN (getOutput_spec s hi) (fun output s1 h1 => ?_)
  rcases expectEnd_cases s1 with he | he
  · rcases hx : expectEnd s1 with ⟨e, s2⟩
    rw [hx] at he
    simp only at he
    simp only [hx, he, if_true]
    trivial
  · simp only [he, Bool.false_eq_true, if_false]
    split
    · exact tokErr_ok _ s1 h1.inv
    · exact ruleEnv_spans _ _ s1 h1.inv

theorem rule_spans (s : PS) (hi : Inv L s) (h0 : s.cur.kind ≠ .eol ∧ s.cur.kind ≠ .comment) : NoFuel L (rule s) := by
  unfold rule
  refine Spec.bindN (getInput_spec s hi h0) (fun input s1 h1 => ?_)
  have h2 := expectArrow_le s1 h1.inv
  rcases he : expectArrow s1 with ⟨g, s2⟩
  rw [he] at h2
  simp only [he]
  cases g with
  | true => exact ruleTail_spans _ s2 h2.inv
  | false => exact tokErr_ok _ s2 h2.inv

/-- **token and column errors of the parser are well placed**, for every token list the lexer can produce -/
theorem parse_error_spans (toks : List Token) (hT : ToksOK L toks) (e : PErr) (h : parse toks = .err e) : ErrOK L e := by
  unfold parse at h
  split at h
  · cases h
  · rename_i t rest
    split at h
    · cases h
    · rename_i hguard
      have hi : Inv L ({ toks := t :: rest, pos := 0, cur := t } : PS) := ⟨hT, by simp, Or.inl rfl⟩
      have h0 : t.kind ≠ .eol ∧ t.kind ≠ .comment := by
        simp only [Bool.or_eq_true, decide_eq_true_eq, not_or] at hguard; exact hguard
      have := rule_spans _ hi h0
      split at h
      · cases h
      · rename_i e' hx; cases h; rw [hx] at this; exact this
      · cases h
      · cases h

theorem parseLine_error_ok (src : Text) (e : PErr) (h : parseLine src = .err e) : ErrOK src.length e := by
  unfold parseLine at h
  cases hl : Lex.lexLine src with
  | ok toks => rw [hl] at h; exact parse_error_spans toks (toksOK_of_lex src toks hl) e h
  | err le =>
    rw [hl] at h; cases h
    exact Or.inr (spansOK_one _ _ (Lex.lexLine_error_span src le hl))
  | panic p => rw [hl] at h; cases h
  | outOfFuel p => rw [hl] at h; cases h

/-- **on every line**: every error of lexer + parser underlines columns inside `[0, len + 1]`, `start ≤ end`, a second
    span beginning where the first ends or later -/
theorem parseLine_error_spans (src : Text) (e : PErr) (h : parseLine src = .err e) : SpansOK src.length e.spans := by
  have := parseLine_error_ok src e h
  rcases this with hmem | hs
  · simp [itemErrNames] at hmem
  · exact hs

/-- **such an error formats**: the formatter shows the line, does not panic, and puts its carets inside the line -/
theorem parser_error_formats (groups : List (List Str)) (g l : Nat) (rg : List Str) (line : Str)
    (hg : groups[g]? = some rg) (hl : rg[l]? = some line) (e : PErr)
    (he : parseLine (line.map Char.toNat) = .err e) :
    ∀ sp ∈ e.spans, ∃ carets, ErrFmt.formatRule groups g l sp.1 sp.2 = .ok (line, carets) ∧
      ∀ i ∈ ErrFmt.caretCols carets, i ≤ line.length := by
  intro sp hsp
  have h := parseLine_error_spans _ e he
  have := h.1 sp hsp
  rw [List.length_map] at this
  exact C17.format_well_placed groups g l sp.1 sp.2 rg line hg hl this.1 this.2

/-- the two-span errors (`DiacriticDoesNotMeetPreReqs*`) format: both caret groups sit under their tokens -/
theorem parser_two_span_error_formats (src : Text) (e : PErr) (he : parseLine src = .err e)
    (a b : Nat × Nat) (hs : e.spans = [a, b]) :
    ∃ carets, ErrFmt.twoSpanLine a.1 a.2 b.1 b.2 = .ok carets ∧ carets.length = b.2 := by
  have h := parseLine_error_spans src e he
  rw [hs] at h
  have ha := h.1 a (by simp)
  have hb := h.1 b (by simp)
  have hab : a.2 ≤ b.1 := by
    have := h.2
    simp only [List.pairwise_cons, List.mem_singleton, forall_eq] at this
    exact this.1
  exact C17.twoSpan_ok a.1 a.2 b.1 b.2 src.length ⟨ha.1, hab, hb.1, hb.2⟩

/-! Non-vacuity: lines the parser rejects with token and column errors, among them the made-up `Eol` after a comment -/
example : (match parseLine ("a > e / ;; c".toList.map Char.toNat) with | .err e => some e | _ => none) = some ⟨"ExpectedUnderline", [(8, 12)]⟩ := by decide +kernel
/-- after the repair of D13b an environment that is just `_` may be followed by a comment -/
example : (match parseLine ("a > e / _ ;; c".toList.map Char.toNat) with | .ok (some _) => true | _ => false) = true := by decide +kernel
example : (match parseLine ("a e".toList.map Char.toNat) with | .err e => some e | _ => none) = some ⟨"ExpectedArrow", [(3, 4)]⟩ := by decide +kernel
example : (match parseLine ("a > e / (C)".toList.map Char.toNat) with | .err e => some e | _ => none) = some ⟨"ExpectedUnderline", [(11, 12)]⟩ := by
  decide +kernel
example : (match parseLine ("(C) > e".toList.map Char.toNat) with | .err e => some e | _ => none) = some ⟨"OptLocError", [(0, 3)]⟩ := by
  decide +kernel
example : (match parseLine ("a > {} / _".toList.map Char.toNat) with | .err e => some e | _ => none) = some ⟨"EmptySet", [(4, 6)]⟩ := by
  decide +kernel
example : (match parseLine ("a > %ʰ".toList.map Char.toNat) with | .err e => some e | _ => none) = some ⟨"UnexpectedDiacritic", [(4, 4), (5, 6)]⟩ := by
  decide +kernel
example : (match parseLine ("a:[+long]ʰ > e".toList.map Char.toNat) with | .err e => some e | _ => none) = some ⟨"UnexpectedDiacritic", [(0, 9), (9, 10)]⟩ := by
  decide +kernel
example : (match parseLine ("   > a".toList.map Char.toNat) with | .err e => some e | _ => none) = some ⟨"UnknownCharacter", [(0, 1)]⟩ := by decide +kernel

end Asca.Parse.Spans
