import AscaVerif.Lemmas.Bits
/-! # C18 — the public `Place` / `Segment` accessors obey getSub/setSub laws

Every theorem quantifies over **every** `p : Option (BitVec 16)` (all 2^16 + 1 places, well formed or
not), every sub-node, every in-range value, every byte.  The model (`Model/Place.lean`, `Model/Seg.lean`)
is tied to `place.rs`/`seg.rs` by the regenerated constants and by the exhaustive correspondence suite
`c18` of the harness. -/
namespace Asca.C18
open Asca Asca.Place

/-- a place is well formed: not `Some(0)`, and no payload bits under an absent sub-node. -/
def PlaceWF : Option (BitVec 16) → Prop
  | none => True
  | some x => x ≠ 0#16 ∧ ∀ n : Sub, present n x = false → payloadClear n x = true

instance : DecidablePred PlaceWF := fun p => by
  cases p with
  | none => exact isTrue trivial
  | some x =>
    unfold PlaceWF
    have : Decidable (∀ n : Sub, present n x = false → payloadClear n x = true) :=
      decidable_of_iff (∀ n ∈ Sub.all, present n x = false → payloadClear n x = true)
        ⟨fun h n => h n (by cases n <;> simp [Sub.all]), fun h n _ => h n⟩
    infer_instance

private theorem norm_ne {x : BitVec 16} (h : x ≠ 0#16) : norm x = some x := by
  simp [norm, h]

private theorem get_some_eq (n : Sub) (x : BitVec 16) :
    getSub n (some x) = if present n x then some (rawGet n.consts x) else none := rfl

private theorem get_norm (n : Sub) (x : BitVec 16) : getSub n (norm x) = getSub n (some x) := by
  unfold norm; split
  · rename_i h; have : x = 0#16 := by simpa using h
    subst this; rw [get_some_eq, present_zero]; rfl
  · rfl

/-- **getSub after setSub** — reading a sub-node after setting it returns what was setSub. -/
theorem get_set (p : Option (BitVec 16)) (n : Sub) (v : BitVec 8) (h : InRange n v) :
    getSub n (setSub n p (some v)) = some v := by
  cases p with
  | none =>
    have ⟨h0, h1, h2⟩ := raw_new n v h
    simp [setSub, norm_ne h0, get_some_eq, h1, h2]
  | some d =>
    have ⟨h0, h1, h2⟩ := raw_setSome n d v h
    simp [setSub, norm_ne h0, get_some_eq, h1, h2]

/-- **getSub after unset** — a removed sub-node reads back as absent. -/
theorem get_unset (p : Option (BitVec 16)) (n : Sub) : getSub n (setSub n p none) = none := by
  cases p with
  | none => rfl
  | some d =>
    have ⟨h1, _⟩ := raw_unset n d
    simp [setSub, get_norm, get_some_eq, h1]

/-- **no residual bits** — after removing sub-node `n`, its payload bits are all zero. -/
theorem unset_clears_payload (p : Option (BitVec 16)) (n : Sub) :
    ∀ x, setSub n p none = some x → (x &&& n.consts.unLow) = 0#16 := by
  intro x hx
  cases p with
  | none => simp [setSub] at hx
  | some d =>
    have ⟨_, h2⟩ := raw_unset n d
    simp only [setSub, norm] at hx
    split at hx
    · simp at hx
    · simp at hx; subst hx; exact h2

/-- **frame** — setting or removing one sub-node leaves every other sub-node as it was. -/
theorem set_frame (p : Option (BitVec 16)) (n n' : Sub) (hne : n ≠ n') (v : Option (BitVec 8))
    (h : ∀ m, v = some m → InRange n m) : getSub n' (setSub n p v) = getSub n' p := by
  cases v with
  | none =>
    cases p with
    | none => rfl
    | some d =>
      have ⟨h1, h2⟩ := raw_unset_frame n n' hne d
      simp [setSub, get_norm, get_some_eq, h1, h2]
  | some m =>
    have hr := h m rfl
    cases p with
    | none =>
      have h1 := raw_new_frame n n' hne m hr
      simp only [setSub]; rw [get_norm, get_some_eq, h1]; rfl
    | some d =>
      have ⟨h1, h2⟩ := raw_setSome_frame n n' hne d m hr
      simp [setSub, get_norm, get_some_eq, h1, h2]

/-- a setter never produces `Some(0)`. -/
theorem set_never_some_zero (p : Option (BitVec 16)) (n : Sub) (v : Option (BitVec 8)) :
    setSub n p v ≠ some 0#16 := by
  have hn : ∀ x, norm x ≠ some 0#16 := by
    intro x; unfold norm; split
    · simp
    · rename_i h; intro hc; simp at hc; simp [hc] at h
  cases v <;> cases p <;> simp [setSub] <;> exact hn _

/-- **removing the last sub-node makes the place absent**. -/
theorem last_unset_none (d : BitVec 16) (n : Sub)
    (h : ∀ n', n' ≠ n → present n' d = false ∧ payloadClear n' d = true) :
    setSub n (some d) none = none := by
  simp [setSub, raw_unset_last n d h, norm]

/-- corollary in terms of the well-formedness predicate and the getters only. -/
theorem last_unset_none_wf (p : Option (BitVec 16)) (n : Sub) (hwf : PlaceWF p)
    (h : ∀ n', n' ≠ n → getSub n' p = none) : setSub n p none = none := by
  cases p with
  | none => rfl
  | some d =>
    apply last_unset_none
    intro n' hne
    have hg := h n' hne
    have hp : present n' d = false := by
      simp only [get_some_eq] at hg
      cases hpp : present n' d <;> simp_all
    exact ⟨hp, hwf.2 n' hp⟩

/-- **setSub ∘ getSub = id** on well-formed places. -/
theorem set_get_id (p : Option (BitVec 16)) (n : Sub) (hwf : PlaceWF p) : setSub n p (getSub n p) = p := by
  cases p with
  | none => rfl
  | some d =>
    obtain ⟨h0, hc⟩ := hwf
    cases hp : present n d with
    | true =>
      simp [get_some_eq, hp, setSub, raw_setSome_get n d hp, norm_ne h0]
    | false =>
      simp [get_some_eq, hp, setSub, raw_unset_absent_clean n d hp (hc n hp), norm_ne h0]

/-- setters preserve well-formedness (used by C08). -/
theorem set_wf (p : Option (BitVec 16)) (n : Sub) (v : Option (BitVec 8))
    (h : ∀ m, v = some m → InRange n m) (hwf : PlaceWF p) : PlaceWF (setSub n p v) := by
  have key : ∀ x : BitVec 16, (∀ n' : Sub, present n' x = false → payloadClear n' x = true) → PlaceWF (norm x) := by
    intro x hx; unfold norm; split
    · trivial
    · rename_i hz; exact ⟨by simpa using hz, hx⟩
  cases v with
  | none =>
    cases p with
    | none => trivial
    | some d =>
      apply key; intro n' hp'
      by_cases hnn : n = n'
      · subst hnn; have := (raw_unset n d).2; simpa [payloadClear] using this
      · have ⟨h1, _⟩ := raw_unset_frame n n' hnn d
        exact raw_unset_clean_frame n n' d (hwf.2 n' (h1 ▸ hp'))
  | some m =>
    have hr := h m rfl
    cases p with
    | none =>
      apply key; intro n' hp'
      by_cases hnn : n = n'
      · subst hnn; have := (raw_new n m hr).2.1; simp [this] at hp'
      · exact raw_new_clean_frame n n' hnn m hr
    | some d =>
      apply key; intro n' hp'
      by_cases hnn : n = n'
      · subst hnn; have := (raw_setSome n d m hr).2.1; simp [this] at hp'
      · have ⟨h1, _⟩ := raw_setSome_frame n n' hnn d m hr
        exact raw_setSome_clean_frame n n' hnn d m hr (hwf.2 n' (h1 ▸ hp'))

/-! ## Segment level -/

/-- in-range for a node value: root/manner/laryngeal bytes are unconstrained. -/
def NodeInRange : Node → BitVec 8 → Prop
  | .sub n, v => InRange n v
  | _, _ => True

theorem getNode_setNodeSome (s : Seg) (n : Node) (v : BitVec 8) (h : NodeInRange n v) :
    (s.setNodeSome n v).getNode n = some v := by
  cases n with
  | sub k => simpa [Seg.setNodeSome, Seg.getNode] using get_set s.place k v h
  | _ => rfl

theorem getNode_setNode_none (s : Seg) (k : Sub) :
    ∀ s', s.setNode? (.sub k) none = some s' → s'.getNode (.sub k) = none := by
  intro s' h; simp [Seg.setNode?] at h; subst h
  simpa [Seg.getNode] using get_unset s.place k

theorem setNodeSome_frame (s : Seg) (n n' : Node) (hne : n ≠ n') (v : BitVec 8) (h : NodeInRange n v) :
    (s.setNodeSome n v).getNode n' = s.getNode n' := by
  cases n <;> cases n' <;> simp_all [Seg.setNodeSome, Seg.getNode]
  rename_i k k'
  exact set_frame s.place k k' (by intro h; exact hne (by rw [h])) (some v) (by intro m hm; cases hm; exact h)

theorem setNode_none_frame (s : Seg) (k : Sub) (n' : Node) (hne : Node.sub k ≠ n') :
    ∀ s', s.setNode? (.sub k) none = some s' → s'.getNode n' = s.getNode n' := by
  intro s' h; simp [Seg.setNode?] at h; subst h
  cases n' <;> simp_all [Seg.getNode]
  rename_i k'
  exact set_frame s.place k k' (by intro h; exact hne (by rw [h])) none (by intro m hm; cases hm)

/-- every node value actually stored is in range (so `set_feat`'s write-back is always legal). -/
theorem getNode_inRange (s : Seg) (n : Node) (v : BitVec 8) (h : s.getNode n = some v) : NodeInRange n v := by
  cases n with
  | sub k =>
    simp only [Seg.getNode] at h
    cases hp : s.place with
    | none => simp [hp, getSub] at h
    | some d =>
      simp only [hp, get_some_eq] at h
      split at h
      · cases h; exact raw_get_inRange k d
      · cases h
  | _ => trivial

/-- a feature mask lies inside its node's payload. -/
def MaskFits : Node → BitVec 8 → Prop
  | .sub n, f => f ≤ n.consts.rng ∧ (f &&& ~~~n.consts.rng) = 0#8
  | _, _ => True

theorem or_inRange (k : Sub) (v f : BitVec 8) (hv : InRange k v) (hf : MaskFits (.sub k) f) :
    InRange k (v ||| f) := by
  unfold MaskFits at hf
  cases k <;> simp only [InRange, Sub.consts, Gen.labConsts, Gen.corConsts, Gen.dorConsts, Gen.phrConsts] at * <;> bv_decide

theorem and_inRange (k : Sub) (v f : BitVec 8) (hv : InRange k v) : InRange k (v &&& ~~~f) := by
  cases k <;> simp only [InRange, Sub.consts, Gen.labConsts, Gen.corConsts, Gen.dorConsts, Gen.phrConsts] at * <;> bv_decide

theorem zero_inRange (k : Sub) : InRange k 0#8 := by
  cases k <;> simp only [InRange, Sub.consts, Gen.labConsts, Gen.corConsts, Gen.dorConsts, Gen.phrConsts] <;> decide

/-- **read a feature after setting it** — `get_feat` after `set_feat(+)` has every bit of the mask setSub;
    after `set_feat(-)` on a present node has none; `set_feat(-)` on an absent node does nothing. -/
theorem getFeat_setFeat_pos (s : Seg) (n : Node) (f : BitVec 8) (hf : MaskFits n f) :
    (s.setFeat n f true).getFeat n f = some f := by
  have hr : NodeInRange n ((s.getNode n).getD 0#8 ||| f) := by
    cases n with
    | sub k =>
      apply or_inRange k _ _ _ hf
      cases hg : s.getNode (.sub k) with
      | none => exact zero_inRange k
      | some v => exact getNode_inRange s (.sub k) v hg
    | _ => trivial
  simp only [Seg.setFeat, if_true, Seg.getFeat, getNode_setNodeSome s n _ hr, Option.map]
  congr 1; bv_decide

theorem getFeat_setFeat_neg (s : Seg) (n : Node) (f : BitVec 8) (v : BitVec 8) (hv : s.getNode n = some v) :
    (s.setFeat n f false).getFeat n f = some 0#8 := by
  have hr : NodeInRange n (v &&& ~~~f) := by
    cases n with
    | sub k => exact and_inRange k v f (getNode_inRange s (.sub k) v hv)
    | _ => trivial
  simp only [Seg.setFeat, Bool.false_eq_true, if_false, hv, Seg.getFeat, getNode_setNodeSome s n _ hr, Option.map]
  congr 1; bv_decide

theorem setFeat_neg_absent_noop (s : Seg) (n : Node) (f : BitVec 8) (h : s.getNode n = none) :
    s.setFeat n f false = s := by
  simp [Seg.setFeat, h]

/-- a positive feature of an absent sub-node creates the sub-node holding exactly that feature. -/
theorem setFeat_pos_absent_creates (s : Seg) (k : Sub) (f : BitVec 8) (hf : MaskFits (.sub k) f)
    (h : s.getNode (.sub k) = none) : (s.setFeat (.sub k) f true).getNode (.sub k) = some f := by
  have hr : NodeInRange (.sub k) (0#8 ||| f) := or_inRange k _ _ (zero_inRange k) hf
  simp only [Seg.setFeat, if_true, h, Option.getD]
  rw [getNode_setNodeSome s _ _ hr]; simp

/-- **frame for features**: `set_feat` on node `n` leaves every other node untouched, and leaves the
    bits of `n` outside the mask untouched. -/
theorem setFeat_frame_node (s : Seg) (n n' : Node) (hne : n ≠ n') (f : BitVec 8) (b : Bool) (hf : MaskFits n f) :
    (s.setFeat n f b).getNode n' = s.getNode n' := by
  cases b with
  | true =>
    have hr : NodeInRange n ((s.getNode n).getD 0#8 ||| f) := by
      cases n with
      | sub k =>
        apply or_inRange k _ _ _ hf
        cases hg : s.getNode (.sub k) with
        | none => exact zero_inRange k
        | some v => exact getNode_inRange s (.sub k) v hg
      | _ => trivial
    simp only [Seg.setFeat, if_true]; exact setNodeSome_frame s n n' hne _ hr
  | false =>
    simp only [Seg.setFeat, Bool.false_eq_true, if_false]
    cases hg : s.getNode n with
    | none => rfl
    | some v =>
      have hr : NodeInRange n (v &&& ~~~f) := by
        cases n with
        | sub k => exact and_inRange k v f (getNode_inRange s (.sub k) v hg)
        | _ => trivial
      exact setNodeSome_frame s n n' hne _ hr

theorem setFeat_frame_bits (s : Seg) (n : Node) (f g : BitVec 8) (b : Bool) (hf : MaskFits n f)
    (hdisj : (f &&& g) = 0#8) (v : BitVec 8) (hv : s.getNode n = some v) :
    (s.setFeat n f b).getFeat n g = some (v &&& g) := by
  cases b with
  | true =>
    have hr : NodeInRange n (v ||| f) := by
      cases n with
      | sub k => exact or_inRange k _ _ (getNode_inRange s (.sub k) v hv) hf
      | _ => trivial
    simp only [Seg.setFeat, if_true, hv, Option.getD, Seg.getFeat, getNode_setNodeSome s n _ hr, Option.map]
    congr 1; bv_decide
  | false =>
    have hr : NodeInRange n (v &&& ~~~f) := by
      cases n with
      | sub k => exact and_inRange k v f (getNode_inRange s (.sub k) v hv)
      | _ => trivial
    simp only [Seg.setFeat, Bool.false_eq_true, if_false, hv, Seg.getFeat, getNode_setNodeSome s n _ hr, Option.map]
    congr 1; bv_decide

/-- **match equations**. -/
theorem featMatch_iff (s : Seg) (n : Node) (mask : BitVec 8) (b : Bool) :
    s.featMatch n mask b = true ↔
      ∃ v, s.getNode n = some v ∧ (if b then (v &&& mask) = mask else (v &&& mask) = 0#8) := by
  unfold Seg.featMatch
  cases s.getNode n with
  | none => simp
  | some v => cases b <;> simp

theorem featMatch_absent (s : Seg) (n : Node) (mask : BitVec 8) (b : Bool) (h : s.getNode n = none) :
    s.featMatch n mask b = false := by
  simp [Seg.featMatch, h]

theorem nodeMatch_iff (s : Seg) (n : Node) (mv : Option (BitVec 8)) :
    s.nodeMatch n mv = true ↔ s.getNode n = mv := by
  unfold Seg.nodeMatch
  cases s.getNode n <;> cases mv <;> simp

/-- after `set_feat(±)`, `feat_match(±)` holds (for `-`: provided the node is present). -/
theorem featMatch_setFeat_pos (s : Seg) (n : Node) (f : BitVec 8) (hf : MaskFits n f) :
    (s.setFeat n f true).featMatch n f true = true := by
  have h := getFeat_setFeat_pos s n f hf
  simp only [Seg.getFeat] at h
  cases hg : (s.setFeat n f true).getNode n with
  | none => simp [hg] at h
  | some v => simp [hg] at h; simp [Seg.featMatch, hg, h]

/-! ## Generated-table side conditions, re-checked against the current source on every build -/

instance (n : Node) (f : BitVec 8) : Decidable (MaskFits n f) := by
  cases n <;> unfold MaskFits <;> infer_instance

/-- executable form of the table side conditions -/
def featRowOk (i : Nat) : Bool :=
  match featNodeMask? i with
  | some (n, m) => decide (MaskFits n m)
  | none => false

def featRowsDisjoint (i j : Nat) : Bool :=
  match featNodeMask? i, featNodeMask? j with
  | some (n, m), some (n', m') => i == j || n != n' || (m &&& m') == 0#8
  | _, _ => false

theorem featTable_ok_all : (List.range featCount).all featRowOk = true := by decide

theorem featTable_disjoint_all :
    (List.range featCount).all (fun i => (List.range featCount).all (featRowsDisjoint i)) = true := by decide

/-- every feature's node is a real node (never `Place`) and its mask fits the node's payload. -/
theorem featTable_ok (i : Nat) (hi : i < featCount) : ∃ n m, featNodeMask? i = some (n, m) ∧ MaskFits n m := by
  have h := List.all_eq_true.mp featTable_ok_all i (List.mem_range.mpr hi)
  unfold featRowOk at h
  split at h
  · rename_i n m heq; exact ⟨n, m, heq, by simpa using h⟩
  · cases h

/-- two different features never share a bit of the same node. -/
theorem featTable_disjoint (i j : Nat) (hi : i < featCount) (hj : j < featCount) (hne : i ≠ j)
    (n : Node) (m m' : BitVec 8) (h1 : featNodeMask? i = some (n, m)) (h2 : featNodeMask? j = some (n, m')) :
    (m &&& m') = 0#8 := by
  have h := List.all_eq_true.mp (List.all_eq_true.mp featTable_disjoint_all i (List.mem_range.mpr hi)) j (List.mem_range.mpr hj)
  simp [featRowsDisjoint, h1, h2, hne] at h
  exact h

/-! ## Non-vacuity: the hypotheses are met by concrete, non-trivial values -/
example : PlaceWF (some 0xA454#16) ∧ InRange .dor 0x2A#8 ∧ MaskFits (.sub .dor) 0x20#8 := by decide
example : getSub .dor (setSub .dor (some 0xA454#16) (some 0x2A#8)) = some 0x2A#8 := by decide
example : setSub .phr (some 0x1002#16) none = none := by decide
example : ¬ PlaceWF (some 0x0003#16) := by decide

end Asca.C18
