import AscaVerif.Model.ErrFmt
/-! # C17 — errors can always be shown and point at the line that caused them

Proved about the formatter arithmetic (`Model/ErrFmt.lean`): an error whose position is *well placed* — it names a
group and a line that exist and a span `start ≤ end ≤ len(line) + 1` — is formatted without panicking, shows exactly
the line it names, and every caret lies within `[0, len(line)]`; conversely an error naming a missing group/line or a
reversed span makes the formatter panic (so well-placedness is exactly what the rest of the code has to guarantee).
That every error the lexer, parser and interpreter *produce* is well placed is **not proved** (front ends not
ported); it is decided by the `c17-spec` search: faults planted at every (group, line) of valid rule lists, one bad
alias line, one bad word — formatter under `catch_unwind`, reported line = planted line, caret columns in range. -/
namespace Asca.C17
open Asca Asca.ErrFmt

theorem spanLine_ok (start stop : Nat) (h : start ≤ stop) :
    spanLine start stop = .ok (List.replicate start ' ' ++ List.replicate (stop - start) '^') := by
  unfold spanLine; simp [Nat.not_lt.mpr h]

theorem spanLine_panics (start stop : Nat) (h : stop < start) : ∃ s, spanLine start stop = .panic s := by
  unfold spanLine; simp [h]

/-- the carets of a span are exactly the columns `start … end-1` -/
theorem caretCols_span (start stop : Nat) (h : start ≤ stop) (i : Nat) :
    i ∈ caretCols (List.replicate start ' ' ++ List.replicate (stop - start) '^') ↔ start ≤ i ∧ i < stop := by
  unfold caretCols
  simp only [List.mem_filter, List.mem_range, List.length_append, List.length_replicate]
  constructor
  · rintro ⟨hi, hc⟩
    by_cases hlt : i < start
    · rw [List.getElem?_append_left (by simpa using hlt)] at hc
      simp [List.getElem?_replicate, hlt] at hc
    · exact ⟨by omega, by omega⟩
  · rintro ⟨h1, h2⟩
    refine ⟨by omega, ?_⟩
    rw [List.getElem?_append_right (by simpa using h1)]
    simp [List.getElem?_replicate]; omega

/-- **well-placed errors format**: the line named is shown, no panic, and every caret is within `[0, len]` -/
theorem format_well_placed (groups : List (List Str)) (g l start stop : Nat) (rg : List Str) (line : Str)
    (hg : groups[g]? = some rg) (hl : rg[l]? = some line)
    (h1 : start ≤ stop) (h2 : stop ≤ line.length + 1) :
    ∃ carets, formatRule groups g l start stop = .ok (line, carets) ∧ ∀ i ∈ caretCols carets, i ≤ line.length := by
  refine ⟨List.replicate start ' ' ++ List.replicate (stop - start) '^', ?_, ?_⟩
  · unfold formatRule shownLine
    rw [spanLine_ok start stop h1]
    simp [hg, hl]
  · intro i hi
    have := (caretCols_span start stop h1 i).mp hi
    omega

/-- an error naming a group or line that does not exist cannot be shown -/
theorem format_missing_line (groups : List (List Str)) (g l start stop : Nat) (h1 : start ≤ stop)
    (h : groups[g]? = none ∨ ∃ rg, groups[g]? = some rg ∧ rg[l]? = none) :
    ∃ s, formatRule groups g l start stop = .panic s := by
  unfold formatRule shownLine
  rw [spanLine_ok start stop h1]
  rcases h with h | ⟨rg, h, h'⟩
  · exact ⟨"rules[group]", by simp [h]⟩
  · exact ⟨"rules[group].rule[line]", by simp [h, h']⟩

/-- two-position errors (after the repair of D28): both caret groups sit under their elements -/
theorem twoSpan_ok (a0 a1 b0 b1 len : Nat) (h : a0 ≤ a1 ∧ a1 ≤ b0 ∧ b0 ≤ b1 ∧ b1 ≤ len + 1) :
    ∃ carets, twoSpanLine a0 a1 b0 b1 = .ok carets ∧ carets.length = b1 := by
  refine ⟨List.replicate a0 ' ' ++ List.replicate (a1 - a0) '^' ++ List.replicate (b0 - a1) ' ' ++ List.replicate (b1 - b0) '^',
    by unfold twoSpanLine; simp [Nat.not_lt.mpr h.1, Nat.not_lt.mpr h.2.2.1], ?_⟩
  simp; omega

/-! Non-vacuity -/
example : formatRule [["a > e".toList, "x >".toList]] 0 1 2 4 = .ok ("x >".toList, "  ^^".toList) := by decide
example : caretCols "  ^^".toList = [2, 3] := by decide

end Asca.C17
