import AscaVerif.Lemmas.Run
/-! C06 at the runner: **lines that parse to no rule leave every word untouched**.  Over the runner model (`lib.rs`
    `parse_rule_groups` / `apply_rule_groups`, abstract parser and interpreter - so for ANY parser that answers `None`
    on the lines in question, in particular `Parser::parse`, which `Props/C06Parse` proves answers `None` on every blank
    and every comment-only string): if every line of every group parses to `None`, the parsed groups are all empty, and
    applying them to any list of phrases returns that list. -/
namespace Asca.C06Run
open Asca Asca.Run Asca.Outcome

variable {ε R W TI TF : Type} (env : Env ε R W TI TF)

theorem parseGroupGo_none (rgi : Nat) : ∀ (lines : List Str) (ri : Nat) (acc : List R),
    (∀ (i : Nat) (l : Str), l ∈ lines → env.parseRule rgi i l = .ok none) → parseGroupGo env rgi ri lines acc = .ok acc.reverse
  | [], _, _, _ => rfl
  | l :: ls, ri, acc, h => by
    rw [parseGroupGo, h ri l (by simp)]
    exact parseGroupGo_none rgi ls (ri + 1) acc (fun i x hx => h i x (by simp [hx]))

theorem parseRuleGroupsGo_none : ∀ (groups : List (List Str)) (rgi : Nat) (acc : List (List R)),
    (∀ (g : Nat) (i : Nat) (grp : List Str) (l : Str), grp ∈ groups → l ∈ grp → env.parseRule g i l = .ok none) →
    parseRuleGroupsGo env rgi groups acc = .ok (acc.reverse ++ groups.map (fun _ => []))
  | [], _, acc, _ => by simp [parseRuleGroupsGo]
  | g :: gs, rgi, acc, h => by
    rw [parseRuleGroupsGo, parseGroupGo_none env rgi g 0 [] (fun i l hl => h rgi i g l (by simp) hl)]
    simp only [List.reverse_nil]
    rw [parseRuleGroupsGo_none gs (rgi + 1) ([] :: acc) (fun g' i grp l hg hl => h g' i grp l (by simp [hg]) hl)]
    simp

/-- every line is no rule ⇒ every group is empty -/
theorem parseRuleGroups_none (groups : List (List Str))
    (h : ∀ (g i : Nat) (grp : List Str) (l : Str), grp ∈ groups → l ∈ grp → env.parseRule g i l = .ok none) :
    parseRuleGroups env groups = .ok (groups.map (fun _ => [])) := by
  unfold parseRuleGroups
  rw [parseRuleGroupsGo_none env groups 0 [] h]; simp

theorem applyWord_all_empty : ∀ (n : List (List Str)) (w : W), applyWord env (n.map (fun _ => ([] : List R))) w = .ok w
  | [], _ => rfl
  | _ :: gs, w => by
    simp only [applyWord, List.map_cons, List.foldlM_cons, applyGroup, List.foldlM_nil, Bind.bind, Outcome.bind, Pure.pure]
    exact applyWord_all_empty gs w

theorem mapM_ok_id {α : Type} (f : α → Outcome ε α) (h : ∀ a, f a = .ok a) : ∀ (l : List α), l.mapM f = .ok l := by
  intro l
  induction l with
  | nil => rfl
  | cons a t ih => simp [List.mapM_cons, h a, ih, Bind.bind, Outcome.bind, Pure.pure]

/-- **groups of empty rule lists change nothing** -/
theorem applyRuleGroups_all_empty (n : List (List Str)) (P : List (List W)) :
    applyRuleGroups env (n.map (fun _ => ([] : List R))) P = .ok P := by
  unfold applyRuleGroups
  exact mapM_ok_id _ (fun ph => mapM_ok_id _ (fun w => applyWord_all_empty env n w) ph) P

/-- **blank and comment-only lines leave every word untouched**: parse, then apply -/
theorem no_rule_lines_identity (groups : List (List Str)) (P : List (List W))
    (h : ∀ (g i : Nat) (grp : List Str) (l : Str), grp ∈ groups → l ∈ grp → env.parseRule g i l = .ok none) :
    (parseRuleGroups env groups >>= fun rs => applyRuleGroups env rs P) = .ok P := by
  rw [parseRuleGroups_none env groups h]
  exact applyRuleGroups_all_empty env groups P

end Asca.C06Run
