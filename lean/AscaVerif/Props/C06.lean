import AscaVerif.Model.Interp.Apply
/-! # C06 — a rule that cannot match leaves the word untouched

Proved over the interpreter port (`Model/Interp`), for words of any length and shape:
* a non-insertion sub-rule whose input matches nowhere from the start of the word returns the word itself;
* **literal theorem**: if the input is a single literal segment that does not occur in the word, the scan loop
  walks the whole word without capturing anything and the sub-rule is the identity (for every fuel: the result is
  the word itself, or the fuel was too small — never a changed word, never a panic).
The full-grammar statement (literal planted anywhere in any rule) is *false* on the pinned tree — see
known_findings.json (inputs ending in `$`, insertion fall-backs, ellipsis backtracking) — and is decided by the
`c06-spec` search plus the model≙impl correspondence. -/
namespace Asca.C06
open Asca Asca.Interp

def Word.segments (w : Word) : List Seg := w.sylls.flatMap (·.segs)

theorem segAt_mem (w : Word) (p : SegPos) (s : Seg) (h : w.segAt p = some s) : s ∈ Word.segments w := by
  unfold Word.segAt Word.getSegAt at h
  cases hs : w.sylls[p.si]? with
  | none => simp [hs] at h
  | some σ =>
    simp [hs] at h
    have h1 : σ ∈ w.sylls := List.mem_of_getElem? hs
    have h2 : s ∈ σ.segs := List.mem_of_getElem? h
    exact List.mem_flatMap.mpr ⟨σ, h1, h2⟩

theorem applyLoop_no_match (r : SubRule) (fuel : Nat) (w : Word) (cur : SegPos) (nx : Option SegPos) (b : Binds)
    (h : inputMatchAt fuel r.input w cur {} = .ok ([], nx, b)) : applyLoop r (fuel + 1) w cur = .ok w := by
  simp [applyLoop, h]

/-- **no match ⇒ identity** (substitution, deletion, metathesis) -/
theorem applySubRule_no_match (r : SubRule) (fuel : Nat) (w : Word) (nx : Option SegPos) (b : Binds)
    (hty : r.ruleType ≠ .insertion)
    (h : inputMatchAt fuel r.input w { si := 0, gi := 0 } {} = .ok ([], nx, b)) : applySubRule (fuel + 1) r w = .ok w := by
  simp [applySubRule, hty, applyLoop_no_match r fuel w _ nx b h]

/-- in-bounds positions hold a segment -/
theorem segAt_of_inB (w : Word) (p : SegPos) (h : w.inB p = true) : ∃ s, w.segAt p = some s := by
  unfold Word.inB Word.inBounds at h
  unfold Word.segAt Word.getSegAt
  cases hs : w.sylls[p.si]? with
  | none => simp [hs] at h
  | some σ =>
    simp [hs] at h
    exact ⟨σ.segs[p.gi], by simp [hs, h]⟩

theorem segLen_of_inB (w : Word) (p : SegPos) (h : w.inB p = true) : ∃ L, w.segLen p = .ok L := by
  unfold Word.inB Word.inBounds at h
  unfold Word.segLen Word.segLengthAt
  cases hs : w.sylls[p.si]? with
  | none => simp [hs] at h
  | some σ => exact ⟨_, rfl⟩

/-- one item step on a literal that does not occur in the word: no capture, no panic -/
theorem inMatchItem_literal_absent (fuel : Nat) (w : Word) (s : Seg) (hs : s ∉ Word.segments w) (pos : SegPos) (b : Binds)
    (hb : w.inB pos = true) :
    ∃ p', inMatchItem (fuel + 1) w [.ipa s none] [] 0 pos b = .ok ⟨false, [], 0, p', b⟩ := by
  obtain ⟨seg, hseg⟩ := segAt_of_inB w pos hb
  obtain ⟨L, hL⟩ := segLen_of_inB w pos hb
  have hne : s ≠ seg := fun e => hs (e ▸ segAt_mem w pos seg hseg)
  refine ⟨incN w (L - 1) pos, ?_⟩
  simp [inMatchItem, inMatchIpa, hseg, skipRun, hL, hne]

/-- the scan of `input_match_at` over a word that lacks the literal: it ends with no captures and no match in progress
    (or runs out of fuel) -/
theorem scan_literal_absent (w : Word) (s : Seg) (hs : s ∉ Word.segments w) :
    ∀ (fuel : Nat) (cur : SegPos) (b : Binds),
      (∃ b', inMatchAtLoop [.ipa s none] fuel w cur none 0 [] b = .ok ([], none, none, false, b')) ∨
      (∃ site, inMatchAtLoop [.ipa s none] fuel w cur none 0 [] b = .outOfFuel site) := by
  intro fuel
  induction fuel with
  | zero => intro cur b; right; exact ⟨_, rfl⟩
  | succ fuel ih =>
    intro cur b
    cases hb : w.inB cur with
    | false => left; exact ⟨b, by simp [inMatchAtLoop, hb]⟩
    | true =>
      cases fuel with
      | zero => right; exact ⟨"input_match_item", by simp [inMatchAtLoop, hb, inMatchItem]⟩
      | succ fuel =>
        obtain ⟨p', hp'⟩ := inMatchItem_literal_absent fuel w s hs cur b hb
        have step : inMatchAtLoop [.ipa s none] (fuel + 1 + 1) w cur none 0 [] b
            = inMatchAtLoop [.ipa s none] (fuel + 1) w (p'.increment w) none 0 [] {} := by
          rw [inMatchAtLoop]
          simp only [hb, hp']
          simp
        rw [step]
        exact ih (p'.increment w) {}

/-- **C06 for a single mandatory literal**: if the input of a substitution / deletion / metathesis sub-rule is a
    literal segment that does not occur in the word, applying it returns the word unchanged (or reports that the
    fuel given was too small); it never returns another word, an error or a panic. -/
theorem literal_absent_identity (r : SubRule) (s : Seg) (hin : r.input = [.ipa s none]) (hty : r.ruleType ≠ .insertion)
    (w : Word) (hs : s ∉ Word.segments w) (fuel : Nat) :
    applySubRule fuel r w = .ok w ∨ ∃ site, applySubRule fuel r w = .outOfFuel site := by
  cases fuel with
  | zero => right; exact ⟨"SubRule::apply", by simp [applySubRule, hty, applyLoop]⟩
  | succ fuel =>
    rcases scan_literal_absent w s hs fuel { si := 0, gi := 0 } {} with ⟨b', h⟩ | ⟨site, h⟩
    · left
      apply applySubRule_no_match r fuel w none b' hty
      simp [inputMatchAt, hin, h]
    · right
      refine ⟨site, ?_⟩
      simp [applySubRule, hty, applyLoop, inputMatchAt, hin, h]

/-! Non-vacuity: `x > e` on the word `pa` (x does not occur) -/
example : (⟨4#8, 128#8, 0#8, some 8288#16⟩ : Seg) ∉ Word.segments { sylls := [{ segs := [⟨4#8, 0#8, 0#8, some 32768#16⟩, ⟨3#8, 192#8, 4#8, some 40976#16⟩] }] } := by
  decide

end Asca.C06
