import AscaVerif.Model.Mods
import AscaVerif.Props.C18
/-! # C04 — a feature matrix matches and changes exactly the features it names

Spec view of a bundle: `feat s i : Option Bool` (`none` = the feature's place sub-node is absent).
The theorems are about `Match.matchSegMods` / `Seg.applySegMods` (Model/Mods.lean), the line-by-line model of
`SubRule::match_modifiers` and `Segment::apply_seg_mods`; the model is tied to the code by the exhaustive
`c04` correspondence suite through the real rule pipeline. -/
namespace Asca.C04
open Asca Asca.C18 Asca.Place

/-- the value of feature `i` in bundle `s`: `none` when its node is absent -/
def feat (s : Seg) (i : Nat) : Option Bool :=
  match featNodeMask? i with
  | some (n, m) => (s.getNode n).map (fun v => (v &&& m) != 0#8)
  | none => none

def polBool : BinMod → Bool | .pos => true | .neg => false

/-- every feature mask is a single bit (re-checked against the generated table on every build) -/
def singleBit (m : BitVec 8) : Bool := [1#8, 2#8, 4#8, 8#8, 16#8, 32#8, 64#8, 128#8].contains m

theorem featTable_singleBit_all :
    (List.range featCount).all (fun i => match featNodeMask? i with | some (_, m) => singleBit m | none => false) = true := by
  decide

theorem featTable_singleBit (i : Nat) (n : Node) (m : BitVec 8) (h : featNodeMask? i = some (n, m)) : singleBit m = true := by
  have hi : i < featCount := by
    apply Classical.byContradiction; intro hc
    have : Gen.featTable[i]? = none := by
      apply List.getElem?_eq_none; unfold featCount at hc; omega
    simp [featNodeMask?, this] at h
  have := List.all_eq_true.mp featTable_singleBit_all i (List.mem_range.mpr hi)
  simpa [h] using this

private theorem single_cases (m v : BitVec 8) (h : singleBit m = true) : (v &&& m) = m ∨ (v &&& m) = 0#8 := by
  simp only [singleBit, List.contains_cons, List.contains_nil, Bool.or_false, Bool.or_eq_true, beq_iff_eq] at h
  rcases h with h | h | h | h | h | h | h | h <;> subst h <;> bv_decide

private theorem single_ne_zero (m : BitVec 8) (h : singleBit m = true) : m ≠ 0#8 := by
  simp only [singleBit, List.contains_cons, List.contains_nil, Bool.or_false, Bool.or_eq_true, beq_iff_eq] at h
  rcases h with h | h | h | h | h | h | h | h <;> subst h <;> decide

/-- **matching one binary feature**: `[+F]` matches iff the feature is present-and-set, `[-F]` iff
    present-and-clear; a feature of an absent sub-node matches neither. -/
theorem matchSegKind_bin (seg : Seg) (al : Alphas) (i : Nat) (n : Node) (m : BitVec 8)
    (h : featNodeMask? i = some (n, m)) (pol : BinMod) :
    ((Match.matchSegKind seg al n m (.bin pol)).1 = true ↔ feat seg i = some (polBool pol)) ∧
    (Match.matchSegKind seg al n m (.bin pol)).2 = al := by
  have hs := featTable_singleBit i n m h
  unfold feat; rw [h]
  cases pol
  · simp only [Match.matchSegKind, Seg.featMatch, polBool]
    cases hg : seg.getNode n with
    | none => simp
    | some v =>
      rcases single_cases m v hs with h1 | h1
      · simp [h1, single_ne_zero m hs]
      · simp [h1]; intro hc; exact absurd hc.symm (single_ne_zero m hs)
  · simp only [Match.matchSegKind, Seg.featMatch, polBool]
    cases hg : seg.getNode n with
    | none => simp
    | some v =>
      rcases single_cases m v hs with h1 | h1
      · simp [h1, single_ne_zero m hs]
      · simp [h1]

theorem match_absent_neither (seg : Seg) (al : Alphas) (i : Nat) (n : Node) (m : BitVec 8)
    (h : featNodeMask? i = some (n, m)) (habs : seg.getNode n = none) (pol : BinMod) :
    (Match.matchSegKind seg al n m (.bin pol)).1 = false := by
  cases pol <;> simp [Match.matchSegKind, Seg.featMatch, habs]

/-- **setting one binary feature** -/
theorem applyFeat_pos (s : Seg) (al : Alphas) (i : Nat) (n : Node) (m : BitVec 8) (h : featNodeMask? i = some (n, m)) :
    ∃ s', s.applyFeatMod al i (.bin .pos) false = .ok (s', al) ∧ feat s' i = some true := by
  refine ⟨s.setFeat n m true, by simp [Seg.applyFeatMod, h], ?_⟩
  obtain ⟨n', m', h', hfit⟩ := featTable_ok i (by
    apply Classical.byContradiction; intro hc
    have : Gen.featTable[i]? = none := by apply List.getElem?_eq_none; unfold featCount at hc; omega
    simp [featNodeMask?, this] at h)
  rw [h] at h'; cases h'
  have := getFeat_setFeat_pos s n m hfit
  unfold feat; rw [h]
  simp only [Seg.getFeat] at this
  cases hg : (s.setFeat n m true).getNode n with
  | none => simp [hg] at this
  | some v =>
    simp [hg] at this ⊢
    rw [this]; exact single_ne_zero m (featTable_singleBit i n m h)

theorem applyFeat_neg_present (s : Seg) (al : Alphas) (i : Nat) (n : Node) (m : BitVec 8) (h : featNodeMask? i = some (n, m))
    (v : BitVec 8) (hv : s.getNode n = some v) :
    ∃ s', s.applyFeatMod al i (.bin .neg) false = .ok (s', al) ∧ feat s' i = some false := by
  refine ⟨s.setFeat n m false, by simp [Seg.applyFeatMod, h], ?_⟩
  have := getFeat_setFeat_neg s n m v hv
  unfold feat; rw [h]
  simp only [Seg.getFeat] at this
  cases hg : (s.setFeat n m false).getNode n with
  | none => simp [hg] at this
  | some w => simp [hg] at this ⊢; exact this

/-- a negative feature of an absent sub-node does nothing -/
theorem applyFeat_neg_absent (s : Seg) (al : Alphas) (i : Nat) (n : Node) (m : BitVec 8) (h : featNodeMask? i = some (n, m))
    (hv : s.getNode n = none) : s.applyFeatMod al i (.bin .neg) false = .ok (s, al) := by
  simp [Seg.applyFeatMod, h, setFeat_neg_absent_noop s n m hv]

/-- **frame**: setting feature `i` leaves feature `j ≠ i` as it was — except that a positive feature creating an
    absent sub-node makes the other features of that sub-node `-`. -/
theorem applyFeat_frame (s : Seg) (al : Alphas) (i j : Nat) (hij : i ≠ j) (pol : BinMod)
    (n : Node) (m : BitVec 8) (hi : featNodeMask? i = some (n, m))
    (n' : Node) (m' : BitVec 8) (hj : featNodeMask? j = some (n', m')) :
    ∃ s', s.applyFeatMod al i (.bin pol) false = .ok (s', al) ∧
      feat s' j = (if n = n' ∧ s.getNode n = none ∧ polBool pol = true then some false else feat s j) := by
  have hlt : ∀ k nn mm, featNodeMask? k = some (nn, mm) → k < featCount := by
    intro k nn mm hk
    apply Classical.byContradiction; intro hc
    have : Gen.featTable[k]? = none := by apply List.getElem?_eq_none; unfold featCount at hc; omega
    simp [featNodeMask?, this] at hk
  obtain ⟨n0, m0, h0, hfit⟩ := featTable_ok i (hlt i n m hi)
  rw [hi] at h0; cases h0
  have hb : pol = .pos ∨ pol = .neg := by cases pol <;> simp
  refine ⟨s.setFeat n m (polBool pol), by rcases hb with rfl | rfl <;> simp [Seg.applyFeatMod, hi, polBool], ?_⟩
  unfold feat; rw [hj]
  by_cases hn : n = n'
  · subst hn
    have hdisj := featTable_disjoint i j (hlt i n m hi) (hlt j n m' hj) hij n m m' hi hj
    cases hg : s.getNode n with
    | none =>
      rcases hb with rfl | rfl
      · cases n with
        | sub k =>
          have hc := setFeat_pos_absent_creates s k m hfit hg
          simp [polBool, hc, hdisj]
        | root => simp [Seg.getNode] at hg
        | manner => simp [Seg.getNode] at hg
        | laryngeal => simp [Seg.getNode] at hg
      · simp [polBool, setFeat_neg_absent_noop s n m hg, hg]
    | some v =>
      have := setFeat_frame_bits s n m m' (polBool pol) hfit hdisj v hg
      simp only [Seg.getFeat] at this
      cases hg' : (s.setFeat n m (polBool pol)).getNode n with
      | none => simp [hg'] at this
      | some w =>
        simp [hg'] at this
        simp only [hg', hg, Option.map_some, this]
        simp
  · have := setFeat_frame_node s n n' hn m (polBool pol) hfit
    simp [this, hn]

/-! ## alphas -/

/-- an alpha first met in the input binds the feature's value (and fails to match when the sub-node is absent) -/
theorem alpha_bind (seg : Seg) (al : Alphas) (c : Nat) (i : Nat) (n : Node) (m : BitVec 8)
    (h : featNodeMask? i = some (n, m)) (hnew : al.get? c = none) :
    Match.matchSegKind seg al n m (.alpha (.alpha c)) =
      (match feat seg i with
       | some b => (true, al.insert c (.feature b))
       | none => (false, al)) := by
  unfold feat; rw [h]
  simp only [Match.matchSegKind, hnew, Seg.getFeat]
  cases seg.getNode n <;> simp

theorem alpha_bind_inv (seg : Seg) (al : Alphas) (c : Nat) (i : Nat) (n : Node) (m : BitVec 8)
    (h : featNodeMask? i = some (n, m)) (hnew : al.get? c = none) :
    Match.matchSegKind seg al n m (.alpha (.inv c)) =
      (match feat seg i with
       | some b => (true, al.insert c (.feature (!b)))
       | none => (false, al)) := by
  unfold feat; rw [h]
  simp only [Match.matchSegKind, hnew, Seg.getFeat]
  cases seg.getNode n with
  | none => simp
  | some v => cases hz : (v &&& m == 0#8) <;> simp [bne, hz]

/-- a bound alpha is used exactly like the `+`/`-` it stands for (`-α`: the inverse) -/
theorem alpha_use (s : Seg) (al : Alphas) (c : Nat) (a : Alpha) (i : Nat) (h : al.get? c = some a) (ipa : Bool) :
    s.applyFeatMod al i (.alpha (.alpha c)) ipa = s.applyFeatMod al i (.bin (if a.asBinary then .pos else .neg)) ipa ∧
    s.applyFeatMod al i (.alpha (.inv c)) ipa = s.applyFeatMod al i (.bin (if a.asBinary then .neg else .pos)) ipa := by
  unfold Seg.applyFeatMod
  cases featNodeMask? i with
  | none => simp
  | some nm => cases hb : a.asBinary <;> simp [h, hb]

theorem alpha_match_use (seg : Seg) (al : Alphas) (c : Nat) (a : Alpha) (n : Node) (m : BitVec 8) (h : al.get? c = some a) :
    Match.matchSegKind seg al n m (.alpha (.alpha c)) = Match.matchSegKind seg al n m (.bin (if a.asBinary then .pos else .neg)) ∧
    Match.matchSegKind seg al n m (.alpha (.inv c)) = Match.matchSegKind seg al n m (.bin (if a.asBinary then .neg else .pos)) := by
  cases hb : a.asBinary <;> simp [Match.matchSegKind, h, hb]

theorem get_insert_same (al : Alphas) (c : Nat) (a : Alpha) : (al.insert c a).get? c = some a := by
  simp [Alphas.insert, Alphas.get?]

/-- **alpha carries its value**: `[αF] > [αG]` on a segment whose `F` is present sets `G` to the value of `F`
    (`[αF] > [-αG]`: to its inverse). -/
theorem alpha_carry (s : Seg) (c : Nat) (i j : Nat) (n : Node) (m : BitVec 8) (hi : featNodeMask? i = some (n, m))
    (b : Bool) (hb : feat s i = some b) :
    ∃ al, Match.matchSegKind s [] n m (.alpha (.alpha c)) = (true, al) ∧
      s.applyFeatMod al j (.alpha (.alpha c)) false = s.applyFeatMod al j (.bin (if b then .pos else .neg)) false ∧
      s.applyFeatMod al j (.alpha (.inv c)) false = s.applyFeatMod al j (.bin (if b then .neg else .pos)) false := by
  have := alpha_bind s [] c i n m hi rfl
  rw [hb] at this
  refine ⟨_, this, ?_⟩
  have hu := alpha_use s (Alphas.insert [] c (.feature b)) c (.feature b) j (get_insert_same _ _ _) false
  cases b <;> simp only [Alpha.asBinary] at hu <;> exact hu

/-! ## nodes -/

/-- `[-place]` removes the whole place node; `[-labial]` … remove one sub-node (its features read back absent) -/
theorem apply_minus_place (s : Seg) (al : Alphas) :
    s.applyNodeMod al .place (.bin .neg) false = .ok ({ s with place := none }, al) := rfl

theorem apply_minus_sub (s : Seg) (al : Alphas) (k : Sub) :
    ∃ s', s.applyNodeMod al (Node.toKind (.sub k)) (.bin .neg) false = .ok (s', al) ∧ s'.getNode (.sub k) = none
      ∧ ∀ n', n' ≠ Node.sub k → s'.getNode n' = s.getNode n' := by
  refine ⟨{ s with place := Place.setSub k s.place none }, ?_, ?_, ?_⟩
  · cases k <;> rfl
  · simpa [Seg.getNode] using get_unset s.place k
  · intro n' hne
    exact setNode_none_frame s k n' (fun h => hne h.symm) _ (by simp [Seg.setNode?])

/-- adding a present sub-node changes nothing; adding an absent one creates it with all features `-` -/
theorem apply_plus_sub (s : Seg) (al : Alphas) (k : Sub) :
    ∃ s', s.applyNodeMod al (Node.toKind (.sub k)) (.bin .pos) false = .ok (s', al) ∧
      (s.getNode (.sub k) ≠ none → s' = s) ∧ (s.getNode (.sub k) = none → s'.getNode (.sub k) = some 0#8) := by
  cases hg : s.getNode (.sub k) with
  | some v =>
    refine ⟨s, ?_, fun _ => rfl, fun h => by cases h⟩
    cases k <;> simp [Seg.applyNodeMod, Node.toKind, Seg.getNodeKind, NodeKind.toNode?, hg, Option.isNone] <;> rfl
  | none =>
    refine ⟨s.setNodeSome (.sub k) 0#8, ?_, fun h => absurd rfl h, fun _ => ?_⟩
    · cases k <;> simp [Seg.applyNodeMod, Node.toKind, Seg.getNodeKind, NodeKind.toNode?, hg, Option.isNone,
        Seg.setNodeKind, Seg.setNode?, Seg.setNodeSome] <;> rfl
    · apply getNode_setNodeSome
      cases k <;> simp only [NodeInRange, InRange, Sub.consts, Gen.labConsts, Gen.corConsts, Gen.dorConsts, Gen.phrConsts] <;> decide

/-- the major nodes and `+place` are rejected, as the manual says -/
theorem apply_major_rejected (s : Seg) (al : Alphas) (b : BinMod) (nk : NodeKind)
    (h : nk = .root ∨ nk = .manner ∨ nk = .laryngeal) :
    ∃ e, s.applyNodeMod al nk (.bin b) false = .err e := by
  rcases h with rfl | rfl | rfl <;> cases b <;> exact ⟨_, rfl⟩

theorem apply_plus_place_rejected (s : Seg) (al : Alphas) :
    s.applyNodeMod al .place (.bin .pos) false = .err "NodeCannotBeSome" := rfl

/-! ## whole matrices (binary modifiers) -/

/-- every entry of the list is absent or a plain `+`/`-` -/
def AllBin (ms : List (Option ModKind)) : Prop := ∀ m ∈ ms, ∀ k, m = some k → ∃ pol, k = .bin pol

/-- **a matrix matches iff every named feature has the named value** (feature part; binary modifiers;
    any offset `i`, so also any prefix already processed). -/
theorem matchFeatsGo_bin (seg : Seg) : ∀ (ms : List (Option ModKind)) (i : Nat) (al : Alphas),
    AllBin ms → i + ms.length ≤ featCount →
    ∃ b, Match.matchFeatsGo seg i ms al = .ok (b, al) ∧
      (b = true ↔ ∀ k pol, ms[k]? = some (some (.bin pol)) → feat seg (i + k) = some (polBool pol)) := by
  intro ms
  induction ms with
  | nil => intro i al _ _; exact ⟨true, rfl, by simp⟩
  | cons m ms ih =>
    intro i al hbin hlen
    have hbin' : AllBin ms := fun x hx => hbin x (by simp [hx])
    have hlen' : (i + 1) + ms.length ≤ featCount := by simp at hlen; omega
    obtain ⟨b, hgo, hiff⟩ := ih (i + 1) al hbin' hlen'
    cases m with
    | none =>
      refine ⟨b, by simp [Match.matchFeatsGo, hgo], ?_⟩
      rw [hiff]
      constructor
      · intro h k pol hk
        cases k with
        | zero => simp at hk
        | succ k => have := h k pol (by simpa using hk); rwa [show i + 1 + k = i + (k + 1) by omega] at this
      · intro h k pol hk
        have := h (k + 1) pol (by simpa using hk); rwa [show i + (k + 1) = i + 1 + k by omega] at this
    | some kind =>
      obtain ⟨pol, rfl⟩ := hbin (some kind) (by simp) kind rfl
      have hi : i < featCount := by simp at hlen; omega
      obtain ⟨n, mk, hnm, _⟩ := featTable_ok i hi
      obtain ⟨h1, h2⟩ := matchSegKind_bin seg al i n mk hnm pol
      cases hb : (Match.matchSegKind seg al n mk (.bin pol)).1 with
      | true =>
        refine ⟨b, ?_, ?_⟩
        · have : Match.matchSegKind seg al n mk (.bin pol) = (true, al) := Prod.ext hb h2
          simp [Match.matchFeatsGo, hnm, this, hgo]
        · have h0 := h1.mp hb
          rw [hiff]
          constructor
          · intro h k pol' hk
            cases k with
            | zero => simp at hk; subst hk; simpa using h0
            | succ k => have := h k pol' (by simpa using hk); rwa [show i + 1 + k = i + (k + 1) by omega] at this
          · intro h k pol' hk
            have := h (k + 1) pol' (by simpa using hk); rwa [show i + (k + 1) = i + 1 + k by omega] at this
      | false =>
        refine ⟨false, ?_, ?_⟩
        · have : Match.matchSegKind seg al n mk (.bin pol) = (false, al) := Prod.ext hb h2
          simp [Match.matchFeatsGo, hnm, this]
        · constructor
          · intro h; cases h
          · intro h
            have := h 0 pol (by simp)
            have := h1.mpr (by simpa using this)
            rw [hb] at this; cases this

/-! ## Non-vacuity: concrete bundles -/
-- /p/ = root 4, manner 0, laryngeal 0, labial present
example : feat { root := 4#8, manner := 0#8, laryngeal := 0#8, place := some 0x8000#16 } 11 = some false := by decide
example : feat { root := 4#8, manner := 0#8, laryngeal := 0#8, place := some 0x8000#16 } 18 = none := by decide
example : featNodeMask? 18 = some (.sub .dor, 32#8) := by decide

end Asca.C04
