import AscaVerif.Lemmas.AParseT
import AscaVerif.Props.C02ALex
import AscaVerif.Model.ErrFmt
/-! C02 for the alias front end, at full strength: **alias lexer + alias parser are total**.  On EVERY romaniser or
    deromaniser line `AliasParser::parse` after `AliasLexer::get_line` returns the transformations or an
    `AliasSyntaxError`: no loop runs for ever and none of the parser's panic sites - `token_list[self.pos-1]`,
    `token_list[self.pos]`, `token_list[0]`, the node / feature array writes of `get_param_args`, the
    `value.parse().expect()` and the two `unreachable!()` of `curr_token_to_modifier`, `DIACRITS[*d as usize]`,
    `start.expect()` of `get_segment` - is reachable (each is an explicit `panic` outcome of Model/AliasParser.lean).
    The proof carries what the alias lexer guarantees about its tokens (`ALex.lexLine_tokens_ok`: a feature token is a
    row of the alias feature table with `+` or `-`, or `tone: n` with `n < 2^16`; a diacritic token indexes the table;
    the list ends with `Eol`) through the parser (`Lemmas/AParseT.lean`).
    Under the same invariant EVERY error of alias lexer + parser is well placed (`parseLine_error_spans`, C17 for alias
    lines): a token error underlines the current token; `EmptyInput` / `EmptyReplacements` its first column; the two
    `DiacriticDoesNotMeetPreReqs` errors the segment's token and then the diacritic's; `UnbalancedIO` a side from its
    first item to its last (item positions are tracked through the loops: `AccOK`, `SegAcc`).  Two genuine panics were
    repaired first: a tone above u16 (`fix:` 45bd874) and an alpha on a feature (`[Vstress] > x`, D31: the alias lexer
    accepted alpha letters although nothing in an alias can bind them, and the parser's `unreachable!()` was reached). -/
namespace Asca.AParse.T
open Asca.AParse
open ALex (AToken ATK)
open Parse (PErr PRes)

variable {L : Nat}

theorem expectArrow_le (s : APS) (hi : Inv L s) : Le L s (expectArrow s).2 := by
  unfold expectArrow
  rcases expect_cases s .arrow hi (by decide) with ⟨he, h1⟩ | he
  · simp only [he, if_true]; exact h1.toLe
  · simp only [he, Bool.false_eq_true, if_false]
    rcases expect_cases s .greaterThan hi (by decide) with ⟨he2, h2⟩ | he2
    · rw [he2]; exact h2.toLe
    · rw [he2]; exact Le.refl s hi

/-- `UnbalancedIO` underlines a side from its first item to its last -/
theorem unbalanced_ok (s : APS) (hi : Inv L s) (l : List AItem) (hl : AccOK s l) :
    Parse.Spans.SpansOK L (match l.head?, l.getLast? with
      | some f, some t => (⟨"UnbalancedIO", [(f.pos.start, t.pos.stop)]⟩ : PErr)
      | _, _ => ⟨"UnbalancedIO", []⟩).spans := by
  cases hh : l.head? with
  | none => exact ⟨fun _ h => by simp at h, List.Pairwise.nil⟩
  | some f =>
    cases hg : l.getLast? with
    | none => exact ⟨fun _ h => by simp at h, List.Pairwise.nil⟩
    | some t =>
      have ht : t ∈ l := List.mem_of_getLast? hg
      have h1 := hl.2 f hh t ht
      have h2 := ((hl.1 t ht).proper hi).2
      exact Parse.Spans.spansOK_one _ _ ⟨h1, h2⟩

theorem pairUp_nofuel (s : APS) (hi : Inv L s) (a b : List AItem) (ha : AccOK s a) (hb : AccOK s b) : NoFuel L (pairUp a b) := by
  unfold pairUp
  simp only
  split
  · exact unbalanced_ok s hi a ha
  · split
    · exact unbalanced_ok s hi b hb
    · trivial

theorem getLine_nofuel (derom : Bool) (s : APS) (hi : Inv L s) : NoFuel L (getLine derom s) := by
  unfold getLine
  have h1 : Spec L (Le L) s (if derom = true then getReplacements s else getInput s) := by
    split
    · exact getReplacements_spec s hi
    · exact getInput_spec s hi
  refine Spec.bindNE h1 (fun ins s1 hins hle1 => ?_)
  have hinsOK : AccOK s1 ins := by
    cases derom with
    | true => exact getReplacements_items s hi ins s1 (by simpa using hins)
    | false => exact getInput_items s hi ins s1 (by simpa using hins)
  have h2 := expectArrow_le s1 hle1.inv
  rcases he : expectArrow s1 with ⟨a, s2⟩
  rw [he] at h2
  simp only [he]
  cases a with
  | false => exact tokErr_ok _ s2 h2.inv
  | true =>
    simp only [Bool.not_true, Bool.false_eq_true, if_false]
    have h3 : Spec L (Le L) s2 (if derom = true then getInput s2 else getReplacements s2) := by
      split
      · exact getInput_spec s2 h2.inv
      · exact getReplacements_spec s2 h2.inv
    refine Spec.bindNE h3 (fun outs s3 houts hle3 => ?_)
    have houtsOK : AccOK s3 outs := by
      cases derom with
      | true => exact getInput_items s2 h2.inv outs s3 (by simpa using houts)
      | false => exact getReplacements_items s2 h2.inv outs s3 (by simpa using houts)
    rcases hx : s3.expect .eol with ⟨e, s4⟩
    simp only
    cases e with
    | false =>
      have : s4 = s3 := by
        unfold APS.expect at hx
        by_cases hk : s3.cur.kind = .eol
        · simp [hk] at hx
        · simp only [hk, if_false, Prod.mk.injEq] at hx; exact hx.2.symm
      rw [this]; exact tokErr_ok _ s3 hle3.inv
    | true => exact pairUp_nofuel s3 hle3.inv ins outs (hinsOK.mono (h2.trans hle3)) houtsOK

/-- **the alias parser neither panics nor loops, and its errors are well placed**, on a token list of the alias lexer -/
theorem parse_no_panic (derom : Bool) (toks : List AToken) (hok : AToksOK L toks) : NoFuel L (parse derom toks) := by
  unfold parse
  split
  · obtain ⟨t, hl, _⟩ := hok.lastEol; cases hl
  · rename_i t rest
    split
    · trivial
    · exact getLine_nofuel derom _ ⟨hok, by simp, by simp⟩

theorem sorted_of_pairwise {toks : List AToken} (h : toks.Pairwise (fun a b => a.stop ≤ b.start)) :
    ∀ (i j : Nat) (ti tj : AToken), i < j → toks[i]? = some ti → toks[j]? = some tj → ti.stop ≤ tj.start := by
  intro i j ti tj hij hi hj
  have hi' := List.getElem?_eq_some_iff.mp hi
  have hj' := List.getElem?_eq_some_iff.mp hj
  obtain ⟨hil, hie⟩ := hi'
  obtain ⟨hjl, hje⟩ := hj'
  have := List.pairwise_iff_getElem.mp h i j hil hjl hij
  rw [hie, hje] at this; exact this

theorem toksOK_of_lex (derom : Bool) (src : Text) (toks : List AToken) (h : ALex.lexLine derom src = .ok toks) : AToksOK src.length toks :=
  ⟨(ALex.lexLine_token_spans derom src toks h).2, ALex.lexLine_tokens_ok derom src toks h,
   (ALex.lexLine_token_spans derom src toks h).1, sorted_of_pairwise (ALex.lexLine_sorted derom src toks h)⟩

/-- **alias lexer + parser are total**: on every line, the transformations or an `AliasSyntaxError` -/
theorem parseLine_returns (derom : Bool) (src : Text) :
    (∃ r, parseLine derom src = .ok r) ∨ (∃ e, parseLine derom src = .err e) := by
  unfold parseLine
  rcases ALex.lexLine_returns derom src with ⟨toks, h⟩ | ⟨e, h⟩
  · rw [h]
    have hp := parse_no_panic derom toks (toksOK_of_lex derom src toks h)
    show (∃ r, parse derom toks = .ok r) ∨ (∃ e, parse derom toks = .err e)
    cases hr : parse derom toks with
    | ok r => exact Or.inl ⟨r, rfl⟩
    | err e => exact Or.inr ⟨e, rfl⟩
    | panic p => rw [hr] at hp; exact hp.elim
    | outOfFuel p => rw [hr] at hp; exact hp.elim
  · rw [h]; exact Or.inr ⟨_, rfl⟩

/-- **every error of alias lexer + parser is well placed** (C17 for alias lines): each underlined span has
    `start ≤ end ≤ len + 1`, and a second span begins where the first ends or later -/
theorem parseLine_error_spans (derom : Bool) (src : Text) (e : PErr) (h : parseLine derom src = .err e) :
    Parse.Spans.SpansOK src.length e.spans := by
  unfold parseLine at h
  cases hl : ALex.lexLine derom src with
  | ok toks =>
    rw [hl] at h
    have hp := parse_no_panic derom toks (toksOK_of_lex derom src toks hl)
    have h' : parse derom toks = .err e := h
    rw [h'] at hp; exact hp
  | err le =>
    rw [hl] at h; cases h
    exact Parse.Spans.spansOK_one _ _ (ALex.lexLine_error_span derom src le hl)
  | panic p => rw [hl] at h; cases h
  | outOfFuel p => rw [hl] at h; cases h

/-- such an error's caret line can be laid out: the padding and the carets are computed without underflow -/
theorem alias_error_formats (derom : Bool) (src : Text) (e : PErr) (h : parseLine derom src = .err e) :
    ∀ sp ∈ e.spans, ∃ carets, ErrFmt.spanLine sp.1 sp.2 = .ok carets := by
  intro sp hsp
  have := (parseLine_error_spans derom src e h).1 sp hsp
  unfold ErrFmt.spanLine
  have hn : ¬ sp.2 < sp.1 := by omega
  rw [if_neg hn]
  exact ⟨_, rfl⟩

/-! Non-vacuity: the inputs that used to panic are now rejected by the lexer; ordinary lines parse -/
example : (match parseLine false ("[Vstress] > x".toList.map Char.toNat) with | .err e => some e.name | _ => none) = some "UnknownEnbyFeature" := by decide +kernel
example : (match parseLine false ("[-Astress] > x".toList.map Char.toNat) with | .err e => some e.name | _ => none) = some "UnknownFeature" := by decide +kernel
example : (match parseLine false ("V:[+long, -stress], ʃ > aa, sh".toList.map Char.toNat) with | .ok r => some r.length | _ => none) = some 2 := by decide +kernel
example : (match parseLine true ("sh > a:[tone: 70000]".toList.map Char.toNat) with | .err e => some e.name | _ => none) = some "ToneTooBig" := by decide +kernel

example : (match parseLine false ("a, b, c > x, y".toList.map Char.toNat) with | .err e => some e | _ => none) = some ⟨"UnbalancedIO", [(10, 14)]⟩ := by decide +kernel
example : (match parseLine false ("aʰ > x".toList.map Char.toNat) with | .err e => some e | _ => none) = some ⟨"DiacriticDoesNotMeetPreReqsFeat", [(0, 1), (1, 2)]⟩ := by decide +kernel
example : (match parseLine false ("> x".toList.map Char.toNat) with | .err e => some e | _ => none) = some ⟨"EmptyInput", [(0, 1)]⟩ := by decide +kernel

end Asca.AParse.T
