import AscaVerif.Lemmas.AParseT
import AscaVerif.Props.C02ALex
/-! C02 for the alias front end, at full strength: **alias lexer + alias parser are total**.  On EVERY romaniser or
    deromaniser line `AliasParser::parse` after `AliasLexer::get_line` returns the transformations or an
    `AliasSyntaxError`: no loop runs for ever and none of the parser's panic sites - `token_list[self.pos-1]`,
    `token_list[self.pos]`, `token_list[0]`, the node / feature array writes of `get_param_args`, the
    `value.parse().expect()` and the two `unreachable!()` of `curr_token_to_modifier`, `DIACRITS[*d as usize]`,
    `start.expect()` of `get_segment` - is reachable (each is an explicit `panic` outcome of Model/AliasParser.lean).
    The proof carries what the alias lexer guarantees about its tokens (`ALex.lexLine_tokens_ok`: a feature token is a
    row of the alias feature table with `+` or `-`, or `tone: n` with `n < 2^16`; a diacritic token indexes the table;
    the list ends with `Eol`) through the parser (`Lemmas/AParseT.lean`).  Two genuine panics stood in the way and were
    repaired first: a tone above u16 (`fix:` 45bd874) and an alpha on a feature (`[Vstress] > x`, D31: the alias lexer
    accepted alpha letters although nothing in an alias can bind them, and the parser's `unreachable!()` was reached). -/
namespace Asca.AParse.T
open Asca.AParse
open ALex (AToken ATK)
open Parse (PErr PRes)

theorem expectArrow_le (s : APS) (hi : Inv s) : Le s (expectArrow s).2 := by
  unfold expectArrow
  rcases expect_cases s .arrow hi (by decide) with ⟨he, h1⟩ | he
  · simp only [he, if_true]; exact h1.toLe
  · simp only [he, Bool.false_eq_true, if_false]
    rcases expect_cases s .greaterThan hi (by decide) with ⟨he2, h2⟩ | he2
    · rw [he2]; exact h2.toLe
    · rw [he2]; exact Le.refl s hi

theorem pairUp_nofuel (a b : List AItem) : NoFuel (pairUp a b) := by
  unfold pairUp
  simp only
  split
  · trivial
  · split <;> trivial

theorem getLine_nofuel (derom : Bool) (s : APS) (hi : Inv s) : NoFuel (getLine derom s) := by
  unfold getLine
  have h1 : Spec Le s (if derom = true then getReplacements s else getInput s) := by
    split
    · exact getReplacements_spec s hi
    · exact getInput_spec s hi
  refine Spec.bindN h1 (fun ins s1 hle1 => ?_)
  have h2 := expectArrow_le s1 hle1.inv
  rcases he : expectArrow s1 with ⟨a, s2⟩
  rw [he] at h2
  simp only [he]
  cases a with
  | false => trivial
  | true =>
    simp only [Bool.not_true, Bool.false_eq_true, if_false]
    have h3 : Spec Le s2 (if derom = true then getInput s2 else getReplacements s2) := by
      split
      · exact getInput_spec s2 h2.inv
      · exact getReplacements_spec s2 h2.inv
    refine Spec.bindN h3 (fun outs s3 hle3 => ?_)
    rcases hx : s3.expect .eol with ⟨e, s4⟩
    simp only
    cases e with
    | false => trivial
    | true => exact pairUp_nofuel ins outs

/-- **the alias parser neither panics nor loops** on a token list of the alias lexer -/
theorem parse_no_panic (derom : Bool) (toks : List AToken) (hok : AToksOK toks) : NoFuel (parse derom toks) := by
  unfold parse
  split
  · obtain ⟨t, hl, _⟩ := hok.lastEol; cases hl
  · rename_i t rest
    split
    · trivial
    · exact getLine_nofuel derom _ ⟨hok, by simp, by simp⟩

theorem toksOK_of_lex (derom : Bool) (src : Text) (toks : List AToken) (h : ALex.lexLine derom src = .ok toks) : AToksOK toks :=
  ⟨(ALex.lexLine_token_spans derom src toks h).2, ALex.lexLine_tokens_ok derom src toks h⟩

/-- **alias lexer + parser are total**: on every line, the transformations or an `AliasSyntaxError` -/
theorem parseLine_returns (derom : Bool) (src : Text) :
    (∃ r, parseLine derom src = .ok r) ∨ (∃ e, parseLine derom src = .err e) := by
  unfold parseLine
  rcases ALex.lexLine_returns derom src with ⟨toks, h⟩ | ⟨e, h⟩
  · rw [h]
    have hp := parse_no_panic derom toks (toksOK_of_lex derom src toks h)
    show (∃ r, parse derom toks = .ok r) ∨ (∃ e, parse derom toks = .err e)
    cases hr : parse derom toks with
    | ok r => exact Or.inl ⟨r, rfl⟩
    | err e => exact Or.inr ⟨e, rfl⟩
    | panic p => rw [hr] at hp; exact hp.elim
    | outOfFuel p => rw [hr] at hp; exact hp.elim
  · rw [h]; exact Or.inr ⟨_, rfl⟩

/-! Non-vacuity: the inputs that used to panic are now rejected by the lexer; ordinary lines parse -/
example : (match parseLine false ("[Vstress] > x".toList.map Char.toNat) with | .err e => some e.name | _ => none) = some "UnknownEnbyFeature" := by decide +kernel
example : (match parseLine false ("[-Astress] > x".toList.map Char.toNat) with | .err e => some e.name | _ => none) = some "UnknownFeature" := by decide +kernel
example : (match parseLine false ("V:[+long, -stress], ʃ > aa, sh".toList.map Char.toNat) with | .ok r => some r.length | _ => none) = some 2 := by decide +kernel
example : (match parseLine true ("sh > a:[tone: 70000]".toList.map Char.toNat) with | .err e => some e.name | _ => none) = some "ToneTooBig" := by decide +kernel

end Asca.AParse.T
