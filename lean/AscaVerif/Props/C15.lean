import AscaVerif.Model.Alias
import AscaVerif.Lemmas.Run
/-! # C15 — aliases change notation, never the sound changes

Three layers.
* the runner (`Run.run`, over abstract components): the romanisers reach `render` and nothing else, so the same
  structural result is printed with or without them (`run_romanisers_only_render`);
* the romaniser renderer of the modelled fragment (`Alias.render`): the printed word is the concatenation of one
  piece per segment, a piece being the default one unless a romaniser hits that segment (`renderSegs_pieces`,
  `piece_no_hit`, `piece_repl`, `piece_plus`), and with no romaniser in the list the general loop is the default
  renderer (`renderSegs_nil`, `renderSylls_nil`);
* the deromaniser step of the word parser (`Alias.fillSegments`): a key at the cursor appends exactly the alias's
  segment and consumes exactly the key (`fill_hit`); where no key stands the parser is the plain one (`fill_miss`).
The tie to `word.rs` is the `alias-ops` correspondence suite; combinations outside the fragment (modifiers on alias
segments, multi-segment inputs, `+` deromanisers) are covered by the `c15-spec` search only. -/
namespace Asca.C15
open Asca Asca.Run Asca.Outcome

/-! ## the runner -/
section runner
variable {ε R W TI TF : Type} (env : Env ε R W TI TF)

/-- everything `run` does before rendering, as a function of the deromanisers only -/
def structural (ti : TI) (groups : List (List Str)) (phrases : List Str) : Outcome ε (List (List W)) := do
  let ps ← parsePhrases env ti phrases
  let rs ← parseRuleGroups env groups
  applyRuleGroups env rs ps

/-- `run` is `structural` followed by rendering with the parsed romanisers -/
theorem run_eq (groups : List (List Str)) (phrases : List Str) (into frm : List Str) :
    run env groups phrases into frm =
      (env.parseAliases into frm >>= fun a => structural env a.1 groups phrases >>= fun res => pure (res.map (phraseToString env a.2))) := by
  unfold run structural
  cases env.parseAliases into frm with
  | ok a =>
    obtain ⟨ti, tf⟩ := a
    simp only [bind_ok]
    cases parsePhrases env ti phrases <;> simp [bind_ok, bind_err, bind_panic, bind_fuel]
  | err e => rfl
  | panic s => rfl
  | outOfFuel s => rfl

/-- **romanisers only change the printing.**  If the alias parser treats the two lists independently (`lib.rs:296-308`
    parses `into`, then `from`, with nothing shared: hypothesis `hsplit`) then a successful run with romanisers and
    the run without them print the *same* structural result `res`, each through its own table. -/
theorem run_romanisers_only_render (groups : List (List Str)) (phrases : List Str) (into frm : List Str)
    (ti : TI) (tf tf0 : TF)
    (hwith : env.parseAliases into frm = .ok (ti, tf)) (hwithout : env.parseAliases into [] = .ok (ti, tf0))
    (out : List Str) (h : run env groups phrases into frm = .ok out) :
    ∃ res, structural env ti groups phrases = .ok res ∧ out = res.map (phraseToString env tf) ∧
      run env groups phrases into [] = .ok (res.map (phraseToString env tf0)) := by
  rw [run_eq, hwith] at h
  simp only [bind_ok] at h
  cases hs : structural env ti groups phrases with
  | ok res =>
    rw [hs] at h
    refine ⟨res, rfl, ?_, ?_⟩
    · simpa [bind_ok, pure] using h.symm
    · rw [run_eq, hwithout]; simp only [bind_ok]; rw [hs]; rfl
  | err e => rw [hs] at h; simp [bind_err] at h
  | panic s => rw [hs] at h; simp [bind_panic] at h
  | outOfFuel s => rw [hs] at h; simp [bind_fuel] at h

/-- and a failure of the rules or words is the same failure with and without romanisers -/
theorem run_romanisers_same_error (groups : List (List Str)) (phrases : List Str) (into frm : List Str)
    (ti : TI) (tf tf0 : TF)
    (hwith : env.parseAliases into frm = .ok (ti, tf)) (hwithout : env.parseAliases into [] = .ok (ti, tf0))
    (e : ε) (h : run env groups phrases into frm = .err e) :
    run env groups phrases into [] = .err e := by
  rw [run_eq, hwith] at h
  rw [run_eq, hwithout]
  simp only [bind_ok] at h ⊢
  cases hs : structural env ti groups phrases with
  | ok res => rw [hs] at h; simp [bind_ok, pure] at h
  | err e' => rw [hs] at h; simpa [bind_err] using h
  | panic s => rw [hs] at h; simp [bind_panic] at h
  | outOfFuel s => rw [hs] at h; simp [bind_fuel] at h

end runner

/-! ## the romaniser renderer -/
open Alias

/-- a segment no romaniser hits is printed as by default (or as `ː` after its twin) -/
theorem piece_no_hit (roms : List Rom) (ord : Render.Table) (prev : Option Seg) (s : Seg)
    (h : ∀ r ∈ roms, r.input.hits s = false) :
    piece roms ord prev s = if prev = some s then .ok [0x2D0] else defaultPiece ord s := by
  unfold piece
  have : roms.find? (fun r => r.input.hits s) = none := by
    rw [List.find?_eq_none]; intro r hr; simp [h r hr]
  rw [this]

/-- with no romanisers every piece is the default one -/
theorem piece_nil (ord : Render.Table) (prev : Option Seg) (s : Seg) :
    piece [] ord prev s = if prev = some s then .ok [0x2D0] else defaultPiece ord s :=
  piece_no_hit [] ord prev s (by simp)

/-- the first romaniser that hits decides: a plain replacement string replaces the segment's text -/
theorem piece_repl (roms : List Rom) (ord : Render.Table) (prev : Option Seg) (s : Seg) (r : Rom) (t : Text)
    (hprev : prev ≠ some s) (hfind : roms.find? (fun r => r.input.hits s) = some r) (hout : r.output = .repl t false) :
    piece roms ord prev s = .ok t := by
  unfold piece; rw [if_neg hprev, hfind]; simp [hout]

/-- `*` removes the segment's text -/
theorem piece_empty (roms : List Rom) (ord : Render.Table) (prev : Option Seg) (s : Seg) (r : Rom)
    (hprev : prev ≠ some s) (hfind : roms.find? (fun r => r.input.hits s) = some r) (hout : r.output = .empty) :
    piece roms ord prev s = .ok [] := by
  unfold piece; rw [if_neg hprev, hfind]; simp [hout]

/-- a `+` string is appended to the nearest base grapheme (`get_nearest_grapheme`), which for a segment that IS a
    grapheme of the table is that grapheme -/
theorem piece_plus (roms : List Rom) (ord : Render.Table) (prev : Option Seg) (s : Seg) (r : Rom) (t g : Text)
    (hprev : prev ≠ some s) (hfind : roms.find? (fun r => r.input.hits s) = some r) (hout : r.output = .repl t true)
    (hg : nearest ord s = .ok g) :
    piece roms ord prev s = .ok (g ++ t) := by
  unfold piece; rw [if_neg hprev, hfind]; simp [hout, hg]

theorem nearest_of_table (ord : Render.Table) (s : Seg) (k : Text) (x : Seg)
    (h : ord.find? (fun p => p.2 = s) = some (k, x)) : nearest ord s = .ok k ∧ Render.segToText ord s = .ok (some k) := by
  unfold nearest Render.segToText
  simp [h]

/-- the pieces of a run of segments, in order -/
def pieces (roms : List Rom) (ord : Render.Table) : Option Seg → List Seg → Res (List Text)
  | _, [] => .ok []
  | prev, s :: ss =>
    match piece roms ord prev s with
    | .ok t =>
      match pieces roms ord (some s) ss with
      | .ok ts => .ok (t :: ts)
      | .err e => .err e | .panic p => .panic p | .outOfFuel p => .outOfFuel p
    | .err e => .err e | .panic p => .panic p | .outOfFuel p => .outOfFuel p

/-- **the printed syllable is the concatenation of one piece per segment** -/
theorem renderSegs_pieces (roms : List Rom) (ord : Render.Table) (prev : Option Seg) (segs : List Seg) (acc : Text)
    (ts : List Text) (h : pieces roms ord prev segs = .ok ts) :
    Alias.renderSegs roms ord prev segs acc = .ok (acc ++ ts.flatten) := by
  induction segs generalizing prev acc ts with
  | nil => simp [pieces] at h; subst h; simp [Alias.renderSegs]
  | cons s ss ih =>
    unfold pieces at h
    cases hp : piece roms ord prev s with
    | ok t =>
      rw [hp] at h
      cases hq : pieces roms ord (some s) ss with
      | ok ts' =>
        rw [hq] at h
        simp at h; subst h
        unfold Alias.renderSegs
        rw [hp]; simp only
        rw [ih (some s) (acc ++ t) ts' hq]
        simp [List.append_assoc]
      | err e => rw [hq] at h; simp at h
      | panic p => rw [hq] at h; simp at h
      | outOfFuel p => rw [hq] at h; simp at h
    | err e => rw [hp] at h; simp at h
    | panic p => rw [hp] at h; simp at h
    | outOfFuel p => rw [hp] at h; simp at h

/-- with an empty romaniser list the general loop is the default renderer's loop -/
theorem renderSegs_nil (ord : Render.Table) (prev : Option Seg) (segs : List Seg) (acc : Text) :
    Alias.renderSegs [] ord prev segs acc = Render.renderSegs ord prev segs acc := by
  induction segs generalizing prev acc with
  | nil => simp [Alias.renderSegs, Render.renderSegs]
  | cons s ss ih =>
    unfold Alias.renderSegs Render.renderSegs
    rw [piece_nil]
    by_cases hp : prev = some s
    · simp [hp, ih]
    · simp only [if_neg hp]
      unfold defaultPiece
      cases Render.segToText ord s with
      | ok o => cases o <;> simp [ih]
      | err e => rfl
      | panic p => rfl
      | outOfFuel p => rfl

theorem renderSylls_nil (ord : Render.Table) (i : Nat) (sylls : List Syll) (acc : Text) :
    Alias.renderSylls [] ord i sylls acc = Render.renderSylls ord i sylls acc := by
  induction sylls generalizing i acc with
  | nil => simp [Alias.renderSylls, Render.renderSylls]
  | cons σ σs ih =>
    unfold Alias.renderSylls Render.renderSylls
    simp only [renderSegs_nil]
    cases Render.renderSegs ord none σ.segs _ with
    | ok acc2 => simp [ih]
    | err e => rfl
    | panic p => rfl
    | outOfFuel p => rfl

/-- romanisers that hit no segment of the word and do not mention `$` leave the default text (without the americanist
    respelling, which this path never applies) -/
theorem renderSegs_no_hit (roms : List Rom) (ord : Render.Table) (prev : Option Seg) (segs : List Seg) (acc : Text)
    (h : ∀ s ∈ segs, ∀ r ∈ roms, r.input.hits s = false) :
    Alias.renderSegs roms ord prev segs acc = Render.renderSegs ord prev segs acc := by
  induction segs generalizing prev acc with
  | nil => simp [Alias.renderSegs, Render.renderSegs]
  | cons s ss ih =>
    have ih' := fun prev acc => ih prev acc (fun s' hs' => h s' (List.mem_cons_of_mem _ hs'))
    unfold Alias.renderSegs Render.renderSegs
    rw [piece_no_hit roms ord prev s (h s (by simp))]
    by_cases hp : prev = some s
    · simp [hp, ih']
    · simp only [if_neg hp]
      unfold defaultPiece
      cases Render.segToText ord s with
      | ok o => cases o <;> simp [ih']
      | err e => rfl
      | panic p => rfl
      | outOfFuel p => rfl

/-! ## the deromaniser step -/

/-- **a key at the cursor appends exactly the alias's segment and consumes exactly the key** — whatever the
    characters of the key would have meant as IPA -/
theorem fill_hit (D : List Derom) (txt : Text) (i : Nat) (sy : Syll) (k : Text) (x : Seg)
    (h : D.find? (fun d => keyAt txt i d.1) = some (k, x)) :
    Alias.fillSegments D txt i sy = .ok ({ sy with segs := sy.segs ++ [x] }, i + k.length) := by
  unfold Alias.fillSegments; rw [h]

/-- where no key stands, the parser is the plain one -/
theorem fill_miss (D : List Derom) (txt : Text) (i : Nat) (sy : Syll)
    (h : ∀ d ∈ D, keyAt txt i d.1 = false) :
    Alias.fillSegments D txt i sy = ParseWord.fillSegments txt i sy := by
  unfold Alias.fillSegments
  have : D.find? (fun d => keyAt txt i d.1) = none := by
    rw [List.find?_eq_none]; intro d hd; simp [h d hd]
  rw [this]

/-- no deromanisers: the word parser is the plain word parser -/
theorem parseInput_nil (t : Text) : Alias.parseInput [] t = ParseWord.parseInput t := by
  unfold Alias.parseInput ParseWord.parseInput ParseWord.parseWord
  have : Alias.fillSegments [] = ParseWord.fillSegments := by
    funext txt i sy; exact fill_miss [] txt i sy (by simp)
  rw [this]


/-! ## typing the IPA instead: the same step -/
open ParseWord in
/-- every non-empty prefix of a grapheme of the table is a prefix key -/
theorem isPrefixKey_of_prefix (g p : Text) (X : Seg) (hg : (g, X) ∈ Gen.cardinals) (hp : p.isPrefixOf g = true) :
    ParseWord.isPrefixKey p = true := by
  unfold ParseWord.isPrefixKey
  rw [List.any_eq_true]
  exact ⟨(g, X), hg, hp⟩

theorem lookup_mem (g : Text) (X : Seg) (h : ParseWord.lookup g = some X) : (g, X) ∈ Gen.cardinals := by
  unfold ParseWord.lookup at h
  cases hf : Gen.cardinals.find? (fun p => p.1 = g) with
  | none => rw [hf] at h; cases h
  | some p =>
    rw [hf] at h
    have hm := List.mem_of_find?_eq_some hf
    have hk : p.1 = g := by simpa using List.find?_some hf
    obtain ⟨k, s⟩ := p
    simp at h hk
    subst hk; subst h; exact hm

/-- the longest-match loop walks through a grapheme that stands in the text and stops after it, when what follows
    neither extends it to a longer prefix of the table nor is the `^` tie shorthand -/
theorem growBuffer_through (g : Text) (X : Seg) (pre rest : Text) (hg : (g, X) ∈ Gen.cardinals)
    (hipa : ∀ c ∈ g, ParseWord.toIpa c = c)
    (hstop : ∀ c, rest.head? = some c → ParseWord.isPrefixKey (g ++ [ParseWord.toIpa c]) = false ∧ c ≠ 0x5E) :
    ∀ (n j fuel : Nat), j + n = g.length → n ≤ fuel →
      ParseWord.growBuffer (pre ++ g ++ rest) fuel (pre.length + j) (g.take j) = (g, pre.length + g.length) := by
  intro n
  induction n with
  | zero =>
    intro j fuel hj _
    have hj' : j = g.length := by omega
    subst hj'
    rw [List.take_length]
    cases fuel with
    | zero => rfl
    | succ fuel =>
      unfold ParseWord.growBuffer
      have hidx : (pre ++ g ++ rest)[pre.length + g.length]? = rest.head? := by
        rw [List.append_assoc, List.getElem?_append_right (by omega)]
        simp only [Nat.add_sub_cancel_left]
        rw [List.getElem?_append_right (by omega)]
        simp [List.head?_eq_getElem?]
      rw [hidx]
      cases hr : rest.head? with
      | none => rfl
      | some c =>
        obtain ⟨h1, h2⟩ := hstop c hr
        simp only [h1, Bool.false_eq_true, if_false, h2]
  | succ n ih =>
    intro j fuel hj hfuel
    cases fuel with
    | zero => omega
    | succ fuel =>
      have hjlt : j < g.length := by omega
      unfold ParseWord.growBuffer
      have hidx : (pre ++ g ++ rest)[pre.length + j]? = some g[j] := by
        rw [List.append_assoc, List.getElem?_append_right (by omega)]
        simp only [Nat.add_sub_cancel_left]
        rw [List.getElem?_append_left hjlt]
        exact List.getElem?_eq_getElem hjlt
      rw [hidx]
      simp only
      have hc : ParseWord.toIpa g[j] = g[j] := hipa _ (List.getElem_mem hjlt)
      have htake : g.take j ++ [g[j]] = g.take (j + 1) := by rw [List.take_succ_eq_append_getElem hjlt]
      rw [hc, htake]
      have hpk : ParseWord.isPrefixKey (g.take (j + 1)) = true :=
        isPrefixKey_of_prefix g _ X hg (by simpa using List.take_prefix (j + 1) g |> List.isPrefixOf_iff_prefix.mpr)
      simp only [hpk, if_true]
      have := ih (j + 1) fuel (by omega) (by omega)
      simpa [Nat.add_assoc] using this

/-- **a typed grapheme is one step too**: where the grapheme `g` of segment `X` stands in the text and is not continued,
    the plain word parser appends exactly `X` and moves past exactly `g` — the effect `fill_hit` gives an alias key -/
theorem typed_grapheme (g : Text) (X : Seg) (pre rest : Text) (sy : Syll) (hne : g ≠ [])
    (hlook : ParseWord.lookup g = some X) (hipa : ∀ c ∈ g, ParseWord.toIpa c = c)
    (hstop : ∀ c, rest.head? = some c → ParseWord.isPrefixKey (g ++ [ParseWord.toIpa c]) = false ∧ c ≠ 0x5E) :
    ParseWord.fillSegments (pre ++ g ++ rest) pre.length sy = .ok ({ sy with segs := sy.segs ++ [X] }, pre.length + g.length) := by
  have hg := lookup_mem g X hlook
  cases g with
  | nil => exact absurd rfl hne
  | cons c0 g' =>
    unfold ParseWord.fillSegments
    have hidx : (pre ++ (c0 :: g') ++ rest)[pre.length]? = some c0 := by
      rw [List.append_assoc, List.getElem?_append_right (by omega)]
      simp
    rw [hidx]
    simp only
    have hc0 : ParseWord.toIpa c0 = c0 := hipa c0 (by simp)
    rw [hc0]
    have hpk : ParseWord.isPrefixKey [c0] = true :=
      isPrefixKey_of_prefix (c0 :: g') [c0] X hg (by simp [List.isPrefixOf])
    simp only [hpk, if_true]
    have hgrow := growBuffer_through (c0 :: g') X pre rest hg hipa hstop g'.length 1 (pre ++ (c0 :: g') ++ rest).length (by simp; omega) (by simp; omega)
    simp only [List.take_succ_cons, List.take_zero] at hgrow
    rw [hgrow]
    simp only [hlook]

/-! ## the hypotheses are satisfiable, the statements are not vacuous -/

/-- a romaniser `a > A`, a `+` romaniser on nasals and `$ > *` on a two-syllable word -/
example :
    let a : Seg := (Gen.cardinals.find? (fun p => p.1 = [0x61])).map (·.2) |>.getD default
    let roms : List Rom := [⟨.ipa a, .repl [0x41] false⟩, ⟨.bound, .empty⟩]
    ∃ w : Word, w.sylls.length = 2 ∧ (Alias.render roms Gen.cardinals w).isOk = true := by
  refine ⟨{ sylls := [{ segs := [(Gen.cardinals.find? (fun p => p.1 = [0x61])).map (·.2) |>.getD default] }, { segs := [(Gen.cardinals.find? (fun p => p.1 = [0x61])).map (·.2) |>.getD default] }] }, rfl, ?_⟩
  decide +kernel

end Asca.C15
