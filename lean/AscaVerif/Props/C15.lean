import AscaVerif.Model.Alias
import AscaVerif.Lemmas.Run
/-! # C15 — aliases change notation, never the sound changes

Three layers.
* the runner (`Run.run`, over abstract components): the romanisers reach `render` and nothing else, so the same
  structural result is printed with or without them (`run_romanisers_only_render`);
* the romaniser renderer of the modelled fragment (`Alias.render`): the printed word is the concatenation of one
  piece per segment, a piece being the default one unless a romaniser hits that segment (`renderSegs_pieces`,
  `piece_no_hit`, `piece_repl`, `piece_plus`), and with no romaniser in the list the general loop is the default
  renderer (`renderSegs_nil`, `renderSylls_nil`);
* the deromaniser step of the word parser (`Alias.fillSegments`): a key at the cursor appends exactly the alias's
  segment and consumes exactly the key (`fill_hit`); where no key stands the parser is the plain one (`fill_miss`).
The tie to `word.rs` is the `alias-ops` correspondence suite; combinations outside the fragment (modifiers on alias
segments, multi-segment inputs, `+` deromanisers) are covered by the `c15-spec` search only. -/
namespace Asca.C15
open Asca Asca.Run Asca.Outcome

/-! ## the runner -/
section runner
variable {ε R W TI TF : Type} (env : Env ε R W TI TF)

/-- everything `run` does before rendering, as a function of the deromanisers only -/
def structural (ti : TI) (groups : List (List Str)) (phrases : List Str) : Outcome ε (List (List W)) := do
  let ps ← parsePhrases env ti phrases
  let rs ← parseRuleGroups env groups
  applyRuleGroups env rs ps

/-- `run` is `structural` followed by rendering with the parsed romanisers -/
theorem run_eq (groups : List (List Str)) (phrases : List Str) (into frm : List Str) :
    run env groups phrases into frm =
      (env.parseAliases into frm >>= fun a => structural env a.1 groups phrases >>= fun res => pure (res.map (phraseToString env a.2))) := by
  unfold run structural
  cases env.parseAliases into frm with
  | ok a =>
    obtain ⟨ti, tf⟩ := a
    simp only [bind_ok]
    cases parsePhrases env ti phrases <;> simp [bind_ok, bind_err, bind_panic, bind_fuel]
  | err e => rfl
  | panic s => rfl
  | outOfFuel s => rfl

/-- **romanisers only change the printing.**  If the alias parser treats the two lists independently (`lib.rs:296-308`
    parses `into`, then `from`, with nothing shared: hypothesis `hsplit`) then a successful run with romanisers and
    the run without them print the *same* structural result `res`, each through its own table. -/
theorem run_romanisers_only_render (groups : List (List Str)) (phrases : List Str) (into frm : List Str)
    (ti : TI) (tf tf0 : TF)
    (hwith : env.parseAliases into frm = .ok (ti, tf)) (hwithout : env.parseAliases into [] = .ok (ti, tf0))
    (out : List Str) (h : run env groups phrases into frm = .ok out) :
    ∃ res, structural env ti groups phrases = .ok res ∧ out = res.map (phraseToString env tf) ∧
      run env groups phrases into [] = .ok (res.map (phraseToString env tf0)) := by
  rw [run_eq, hwith] at h
  simp only [bind_ok] at h
  cases hs : structural env ti groups phrases with
  | ok res =>
    rw [hs] at h
    refine ⟨res, rfl, ?_, ?_⟩
    · simpa [bind_ok, pure] using h.symm
    · rw [run_eq, hwithout]; simp only [bind_ok]; rw [hs]; rfl
  | err e => rw [hs] at h; simp [bind_err] at h
  | panic s => rw [hs] at h; simp [bind_panic] at h
  | outOfFuel s => rw [hs] at h; simp [bind_fuel] at h

/-- and a failure of the rules or words is the same failure with and without romanisers -/
theorem run_romanisers_same_error (groups : List (List Str)) (phrases : List Str) (into frm : List Str)
    (ti : TI) (tf tf0 : TF)
    (hwith : env.parseAliases into frm = .ok (ti, tf)) (hwithout : env.parseAliases into [] = .ok (ti, tf0))
    (e : ε) (h : run env groups phrases into frm = .err e) :
    run env groups phrases into [] = .err e := by
  rw [run_eq, hwith] at h
  rw [run_eq, hwithout]
  simp only [bind_ok] at h ⊢
  cases hs : structural env ti groups phrases with
  | ok res => rw [hs] at h; simp [bind_ok, pure] at h
  | err e' => rw [hs] at h; simpa [bind_err] using h
  | panic s => rw [hs] at h; simp [bind_panic] at h
  | outOfFuel s => rw [hs] at h; simp [bind_fuel] at h

end runner

/-! ## the romaniser renderer -/
open Alias

/-- a segment no romaniser hits is printed as by default (or as `ː` after its twin) -/
theorem piece_no_hit (roms : List Rom) (ord : Render.Table) (prev : Option Seg) (s : Seg)
    (h : ∀ r ∈ roms, r.input.hits s = false) :
    piece roms ord prev s = if prev = some s then .ok [0x2D0] else defaultPiece ord s := by
  unfold piece
  have : roms.find? (fun r => r.input.hits s) = none := by
    rw [List.find?_eq_none]; intro r hr; simp [h r hr]
  rw [this]

/-- with no romanisers every piece is the default one -/
theorem piece_nil (ord : Render.Table) (prev : Option Seg) (s : Seg) :
    piece [] ord prev s = if prev = some s then .ok [0x2D0] else defaultPiece ord s :=
  piece_no_hit [] ord prev s (by simp)

/-- the first romaniser that hits decides: a plain replacement string replaces the segment's text -/
theorem piece_repl (roms : List Rom) (ord : Render.Table) (prev : Option Seg) (s : Seg) (r : Rom) (t : Text)
    (hprev : prev ≠ some s) (hfind : roms.find? (fun r => r.input.hits s) = some r) (hout : r.output = .repl t false) :
    piece roms ord prev s = .ok t := by
  unfold piece; rw [if_neg hprev, hfind]; simp [hout]

/-- `*` removes the segment's text -/
theorem piece_empty (roms : List Rom) (ord : Render.Table) (prev : Option Seg) (s : Seg) (r : Rom)
    (hprev : prev ≠ some s) (hfind : roms.find? (fun r => r.input.hits s) = some r) (hout : r.output = .empty) :
    piece roms ord prev s = .ok [] := by
  unfold piece; rw [if_neg hprev, hfind]; simp [hout]

/-- a `+` string is appended to the nearest base grapheme (`get_nearest_grapheme`), which for a segment that IS a
    grapheme of the table is that grapheme -/
theorem piece_plus (roms : List Rom) (ord : Render.Table) (prev : Option Seg) (s : Seg) (r : Rom) (t g : Text)
    (hprev : prev ≠ some s) (hfind : roms.find? (fun r => r.input.hits s) = some r) (hout : r.output = .repl t true)
    (hg : nearest ord s = .ok g) :
    piece roms ord prev s = .ok (g ++ t) := by
  unfold piece; rw [if_neg hprev, hfind]; simp [hout, hg]

theorem nearest_of_table (ord : Render.Table) (s : Seg) (k : Text) (x : Seg)
    (h : ord.find? (fun p => p.2 = s) = some (k, x)) : nearest ord s = .ok k ∧ Render.segToText ord s = .ok (some k) := by
  unfold nearest Render.segToText
  simp [h]

/-- the pieces of a run of segments, in order -/
def pieces (roms : List Rom) (ord : Render.Table) : Option Seg → List Seg → Res (List Text)
  | _, [] => .ok []
  | prev, s :: ss =>
    match piece roms ord prev s with
    | .ok t =>
      match pieces roms ord (some s) ss with
      | .ok ts => .ok (t :: ts)
      | .err e => .err e | .panic p => .panic p | .outOfFuel p => .outOfFuel p
    | .err e => .err e | .panic p => .panic p | .outOfFuel p => .outOfFuel p

/-- **the printed syllable is the concatenation of one piece per segment** -/
theorem renderSegs_pieces (roms : List Rom) (ord : Render.Table) (prev : Option Seg) (segs : List Seg) (acc : Text)
    (ts : List Text) (h : pieces roms ord prev segs = .ok ts) :
    Alias.renderSegs roms ord prev segs acc = .ok (acc ++ ts.flatten) := by
  induction segs generalizing prev acc ts with
  | nil => simp [pieces] at h; subst h; simp [Alias.renderSegs]
  | cons s ss ih =>
    unfold pieces at h
    cases hp : piece roms ord prev s with
    | ok t =>
      rw [hp] at h
      cases hq : pieces roms ord (some s) ss with
      | ok ts' =>
        rw [hq] at h
        simp at h; subst h
        unfold Alias.renderSegs
        rw [hp]; simp only
        rw [ih (some s) (acc ++ t) ts' hq]
        simp [List.append_assoc]
      | err e => rw [hq] at h; simp at h
      | panic p => rw [hq] at h; simp at h
      | outOfFuel p => rw [hq] at h; simp at h
    | err e => rw [hp] at h; simp at h
    | panic p => rw [hp] at h; simp at h
    | outOfFuel p => rw [hp] at h; simp at h

/-- with an empty romaniser list the general loop is the default renderer's loop -/
theorem renderSegs_nil (ord : Render.Table) (prev : Option Seg) (segs : List Seg) (acc : Text) :
    Alias.renderSegs [] ord prev segs acc = Render.renderSegs ord prev segs acc := by
  induction segs generalizing prev acc with
  | nil => simp [Alias.renderSegs, Render.renderSegs]
  | cons s ss ih =>
    unfold Alias.renderSegs Render.renderSegs
    rw [piece_nil]
    by_cases hp : prev = some s
    · simp [hp, ih]
    · simp only [if_neg hp]
      unfold defaultPiece
      cases Render.segToText ord s with
      | ok o => cases o <;> simp [ih]
      | err e => rfl
      | panic p => rfl
      | outOfFuel p => rfl

theorem renderSylls_nil (ord : Render.Table) (i : Nat) (sylls : List Syll) (acc : Text) :
    Alias.renderSylls [] ord i sylls acc = Render.renderSylls ord i sylls acc := by
  induction sylls generalizing i acc with
  | nil => simp [Alias.renderSylls, Render.renderSylls]
  | cons σ σs ih =>
    unfold Alias.renderSylls Render.renderSylls
    simp only [renderSegs_nil]
    cases Render.renderSegs ord none σ.segs _ with
    | ok acc2 => simp [ih]
    | err e => rfl
    | panic p => rfl
    | outOfFuel p => rfl

/-- romanisers that hit no segment of the word and do not mention `$` leave the default text (without the americanist
    respelling, which this path never applies) -/
theorem renderSegs_no_hit (roms : List Rom) (ord : Render.Table) (prev : Option Seg) (segs : List Seg) (acc : Text)
    (h : ∀ s ∈ segs, ∀ r ∈ roms, r.input.hits s = false) :
    Alias.renderSegs roms ord prev segs acc = Render.renderSegs ord prev segs acc := by
  induction segs generalizing prev acc with
  | nil => simp [Alias.renderSegs, Render.renderSegs]
  | cons s ss ih =>
    have ih' := fun prev acc => ih prev acc (fun s' hs' => h s' (List.mem_cons_of_mem _ hs'))
    unfold Alias.renderSegs Render.renderSegs
    rw [piece_no_hit roms ord prev s (h s (by simp))]
    by_cases hp : prev = some s
    · simp [hp, ih']
    · simp only [if_neg hp]
      unfold defaultPiece
      cases Render.segToText ord s with
      | ok o => cases o <;> simp [ih']
      | err e => rfl
      | panic p => rfl
      | outOfFuel p => rfl

/-! ## the deromaniser step -/

/-- **a key at the cursor appends exactly the alias's segment and consumes exactly the key** — whatever the
    characters of the key would have meant as IPA -/
theorem fill_hit (D : List Derom) (txt : Text) (i : Nat) (sy : Syll) (k : Text) (x : Seg)
    (h : D.find? (fun d => keyAt txt i d.1) = some (k, x)) :
    Alias.fillSegments D txt i sy = .ok ({ sy with segs := sy.segs ++ [x] }, i + k.length) := by
  unfold Alias.fillSegments; rw [h]

/-- where no key stands, the parser is the plain one -/
theorem fill_miss (D : List Derom) (txt : Text) (i : Nat) (sy : Syll)
    (h : ∀ d ∈ D, keyAt txt i d.1 = false) :
    Alias.fillSegments D txt i sy = ParseWord.fillSegments txt i sy := by
  unfold Alias.fillSegments
  have : D.find? (fun d => keyAt txt i d.1) = none := by
    rw [List.find?_eq_none]; intro d hd; simp [h d hd]
  rw [this]

/-- no deromanisers: the word parser is the plain word parser -/
theorem parseInput_nil (t : Text) : Alias.parseInput [] t = ParseWord.parseInput t := by
  unfold Alias.parseInput ParseWord.parseInput ParseWord.parseWord
  have : Alias.fillSegments [] = ParseWord.fillSegments := by
    funext txt i sy; exact fill_miss [] txt i sy (by simp)
  rw [this]

/-! ## the hypotheses are satisfiable, the statements are not vacuous -/

/-- a romaniser `a > A`, a `+` romaniser on nasals and `$ > *` on a two-syllable word -/
example :
    let a : Seg := (Gen.cardinals.find? (fun p => p.1 = [0x61])).map (·.2) |>.getD default
    let roms : List Rom := [⟨.ipa a, .repl [0x41] false⟩, ⟨.bound, .empty⟩]
    ∃ w : Word, w.sylls.length = 2 ∧ (Alias.render roms Gen.cardinals w).isOk = true := by
  refine ⟨{ sylls := [{ segs := [(Gen.cardinals.find? (fun p => p.1 = [0x61])).map (·.2) |>.getD default] }, { segs := [(Gen.cardinals.find? (fun p => p.1 = [0x61])).map (·.2) |>.getD default] }] }, rfl, ?_⟩
  decide +kernel

end Asca.C15
