import AscaVerif.Lemmas.Lex
/-! C13 at the level of the rule lexer: spellings the manual declares equivalent produce the same token (same kind, same
    lexer state afterwards), for EVERY continuation of the line and every lexer state in which the spelling can occur.
    The parser reads kinds and values, never the spelling, so these are the lexer's share of "equivalent spellings
    parse alike"; the parser's share (`|` vs `//`, `*` vs `∅`, ...) is decided by the c13-spec search. -/
namespace Asca.Lex

/-- a lexer state at position `p` with the rest of the line `r` -/
abbrev st (r : Text) (p : Nat) (f : LS) : LS := { f with src := r, pos := p }

/-- **white space between tokens is invisible**: any run of white space before a token only moves the position -/
theorem whitespace_skipped (ws r : Text) (p : Nat) (f : LS) (h : ∀ c ∈ ws, Cli.isWs c = true) :
    getNextToken (st (ws ++ r) p f) = getNextToken (st r (p + ws.length) f) := by
  have hd : (ws ++ r).dropWhile Cli.isWs = r.dropWhile Cli.isWs := by
    induction ws with
    | nil => rfl
    | cons a t ih =>
      have ha := h a (by simp)
      simp only [List.cons_append, List.dropWhile_cons, ha, if_true]
      exact ih (fun c hc => h c (by simp [hc]))
  have ht : ((ws ++ r).takeWhile Cli.isWs).length = ws.length + (r.takeWhile Cli.isWs).length := by
    clear hd
    induction ws with
    | nil => simp
    | cons a t ih =>
      have ha := h a (by simp)
      have ih' : ((t ++ r).takeWhile Cli.isWs).length = t.length + (r.takeWhile Cli.isWs).length :=
        ih (fun c hc => h c (by simp [hc]))
      simp only [List.cons_append, List.takeWhile_cons, ha, if_true, List.length_cons, ih']
      omega
  have : (st (ws ++ r) p f).trimWs = (st r (p + ws.length) f).trimWs := by
    simp only [LS.trimWs, LS.chopWhile, hd, ht, Nat.add_assoc]
  unfold getNextToken
  simp only [this]

/-- the state after a token of `n` characters, with possibly changed flags -/
abbrev after (r : Text) (p n : Nat) (f : LS) : LS := { f with src := r, pos := p + n }

/-- **`->` and `=>`** (outside a matrix): both are the `Arrow` token and leave the same lexer state -/
theorem arrow_spellings (r : Text) (p : Nat) (f : LS) (hm : f.inMatrix = false) :
    getNextToken (st (45 :: 62 :: r) p f) = .ok (⟨.arrow, [45, 62], p, p + 2⟩, after r p 2 f) ∧
    getNextToken (st (61 :: 62 :: r) p f) = .ok (⟨.arrow, [61, 62], p, p + 2⟩, after r p 2 f) := by
  constructor <;>
  simp [getNextToken, LS.trimWs, LS.chopWhile, Cli.isWs, orElse, getComment, getBracket, getPrimative, getNumeric,
    getFeature, getSpecialChar, LS.cur, LS.next, hm, isUpper, isDigit, chopTok, LS.chop, bind, Outcome.bind, pure]

/-- `…`, `⋯`, `..` and `...` are all the `Ellipsis` token, in every lexer state -/
theorem ellipsis_spellings (r : Text) (p : Nat) (f : LS) (hr : r.head? ≠ some 46) :
    getNextToken (st (0x2026 :: r) p f) = .ok (⟨.ellipsis, [0x2026], p, p + 1⟩, after r p 1 f) ∧
    getNextToken (st (0x22EF :: r) p f) = .ok (⟨.ellipsis, [0x22EF], p, p + 1⟩, after r p 1 f) ∧
    getNextToken (st (46 :: 46 :: r) p f) = .ok (⟨.ellipsis, [46, 46], p, p + 2⟩, after r p 2 f) ∧
    getNextToken (st (46 :: 46 :: 46 :: r) p f) = .ok (⟨.ellipsis, [46, 46, 46], p, p + 3⟩, after r p 3 f) := by
  have ht : r.takeWhile (· == 46) = [] := by
    cases r with
    | nil => rfl
    | cons x t =>
      have : x ≠ 46 := by intro h; subst h; simp at hr
      simp [this]
  have hd : r.dropWhile (· == 46) = r := by
    cases r with
    | nil => rfl
    | cons x t =>
      have : x ≠ 46 := by intro h; subst h; simp at hr
      simp [this]
  refine ⟨?_, ?_, ?_, ?_⟩ <;>
  simp [getNextToken, LS.trimWs, LS.chopWhile, Cli.isWs, orElse, getComment, getBracket, getPrimative, getNumeric,
    getFeature, getSpecialChar, LS.cur, LS.next, isUpper, isDigit, isGreek, chopTok, whileTok, LS.chop, bind, Outcome.bind, pure,
    ht, hd]

/-- `<` and `⟨` open a syllable structure alike: the same token and state, or the same error when one is already open -/
theorem left_angle_spellings (r : Text) (p : Nat) (f : LS) :
    (f.inSyll = true →
      getNextToken (st (60 :: r) p f) = .err ⟨"NestedBrackets", p, p + 1⟩ ∧
      getNextToken (st (0x27E8 :: r) p f) = .err ⟨"NestedBrackets", p, p + 1⟩) ∧
    (f.inSyll = false →
      getNextToken (st (60 :: r) p f) = .ok (⟨.leftAngle, [60], p, p + 1⟩, after r p 1 { f with inSyll := true }) ∧
      getNextToken (st (0x27E8 :: r) p f) = .ok (⟨.leftAngle, [0x27E8], p, p + 1⟩, after r p 1 { f with inSyll := true })) := by
  refine ⟨fun h => ⟨?_, ?_⟩, fun h => ⟨?_, ?_⟩⟩ <;>
  simp [getNextToken, LS.trimWs, LS.chopWhile, Cli.isWs, orElse, getComment, getBracket, getPrimative, getNumeric,
    getFeature, getSpecialChar, LS.cur, isUpper, isDigit, isGreek, chopTok, emit1, LS.advance, LS.chop, bind, Outcome.bind, pure, h]

/-- inside a syllable structure `>` closes it exactly as `⟩` does -/
theorem right_angle_spellings (r : Text) (p : Nat) (f : LS) (h : f.inSyll = true) :
    getNextToken (st (62 :: r) p f) = .ok (⟨.rightAngle, [62], p, p + 1⟩, after r p 1 { f with inSyll := false }) ∧
    getNextToken (st (0x27E9 :: r) p f) = .ok (⟨.rightAngle, [0x27E9], p, p + 1⟩, after r p 1 { f with inSyll := false }) := by
  constructor <;>
  simp [getNextToken, LS.trimWs, LS.chopWhile, Cli.isWs, orElse, getComment, getBracket, getPrimative, getNumeric,
    getFeature, getSpecialChar, LS.cur, isUpper, isDigit, isGreek, chopTok, emit1, LS.advance, LS.chop, bind, Outcome.bind, pure, h]

/-! ### feature names -/

/-- a feature name is read without regard to case: only the lower-cased buffer is looked up -/
theorem featureMatch_case (b1 b2 : Text) (h : b1.map lower = b2.map lower) : featureMatch b1 = featureMatch b2 := by
  simp only [featureMatch, h]

/-- two spellings the table maps to the same feature give the same token -/
theorem feature_synonyms (start : Nat) (m b1 b2 : Text) (s : LS) (h : featureMatch b1 = featureMatch b2)
    (h1 : 2 ≤ b1.length) (h2 : 2 ≤ b2.length) : featFinish start m b1 s = featFinish start m b2 s := by
  unfold featFinish
  rw [if_neg (by omega), if_neg (by omega), h]

/-! ### typewriter substitutes -/

theorem apostrophe_not_grapheme : ParseWord.isPrefixKey [39] = false ∧ ParseWord.isPrefixKey [700] = false := by
  constructor <;> decide +kernel

/-- the typewriter apostrophe is the ejective mark `ʼ` (outside a matrix) -/
theorem apostrophe_spelling (r : Text) (p : Nat) (f : LS) (hm : f.inMatrix = false) :
    getNextToken (st (39 :: r) p f) = getNextToken (st (700 :: r) p f) := by
  simp [getNextToken, LS.trimWs, LS.chopWhile, Cli.isWs, orElse, getComment, getBracket, getPrimative, getNumeric,
    getFeature, getSpecialChar, getIpa, getDiacritic, diaChar, ipaFirst, amer, asIpa, LS.cur, hm, isUpper, isDigit,
    apostrophe_not_grapheme.1, apostrophe_not_grapheme.2, emit1, LS.advance, bind, Outcome.bind, pure, getString, isAlpha, isLower]

/-- the six IPA letters the typewriter letters stand for all begin a grapheme of the table -/
theorem typed_images_are_graphemes :
    ParseWord.isPrefixKey [609] = true ∧ ParseWord.isPrefixKey [660] = true ∧ ParseWord.isPrefixKey [451] = true ∧
    ParseWord.isPrefixKey [620] = true ∧ ParseWord.isPrefixKey [626] = true ∧ ParseWord.isPrefixKey [632] = true := by
  refine ⟨?_, ?_, ?_, ?_, ?_, ?_⟩ <;> decide +kernel

/-- `g ? ! ł ñ φ` typed in a rule are read as `ɡ ʔ ǃ ɬ ɲ ɸ` (outside a matrix): the same token, the same state -/
theorem typed_ipa_letters (c : Nat) (hc : c ∈ [103, 63, 33, 322, 241, 966]) (r : Text) (p : Nat) (f : LS) (hm : f.inMatrix = false) :
    getNextToken (st (c :: r) p f) = getNextToken (st (asIpa c :: r) p f) := by
  simp only [List.mem_cons, List.mem_nil_iff, or_false] at hc
  rcases hc with rfl | rfl | rfl | rfl | rfl | rfl <;>
  simp [getNextToken, LS.trimWs, LS.chopWhile, Cli.isWs, orElse, getComment, getBracket, getPrimative, getNumeric,
    getFeature, getSpecialChar, getIpa, ipaFirst, amer, asIpa, LS.cur, hm, isUpper, isDigit,
    LS.advance, bind, Outcome.bind, pure, typed_images_are_graphemes.1, typed_images_are_graphemes.2.1,
    typed_images_are_graphemes.2.2.1, typed_images_are_graphemes.2.2.2.1, typed_images_are_graphemes.2.2.2.2.1,
    typed_images_are_graphemes.2.2.2.2.2] <;>
  (generalize ipaLoop (r.length + 1) _ _ = x; cases x <;> rfl)

/-! Non-vacuity: the four equivalences on concrete lines, through the whole lexer -/
example : (lexLine ("a -> e".toList.map Char.toNat)).map' (·.map (·.kind)) = (lexLine ("a => e".toList.map Char.toNat)).map' (·.map (·.kind)) := by
  decide +kernel
example : (lexLine ("r...l > &".toList.map Char.toNat)).map' (·.map (·.kind)) = (lexLine ("r…l  >  &".toList.map Char.toNat)).map' (·.map (·.kind)) := by
  decide +kernel
example : (lexLine ("<CV> > * / _g'".toList.map Char.toNat)).map' (·.map (fun t => (t.kind, t.value.length))) =
    (lexLine ("⟨CV⟩ > * / _ɡʼ".toList.map Char.toNat)).map' (·.map (fun t => (t.kind, t.value.length))) := by
  decide +kernel
example : (lexLine ("[+NASAL]".toList.map Char.toNat)).map' (·.map (·.kind)) = (lexLine ("[ + nas ]".toList.map Char.toNat)).map' (·.map (·.kind)) := by
  decide +kernel

end Asca.Lex
