import AscaVerif.Props.C14Supra
/-! # C05, end to end — `X > [±stress]`, `X > [±stress, tone: n]`, `X > [tone: n]`

The manual's table for stress and tone, carried through the whole scan of a rule with `C14Supra.matrix_rule_gen`: a rule
whose output matrix names `±stress` (no secondary stress, no node, feature or length; a tone or none) returns a word in
which every syllable is EITHER exactly the syllable it was, OR that syllable with primary stress (for `+stress`; no
stress for `-stress`) and, when the matrix names one, the new tone - segments untouched in both cases.  For every word,
any number of matches, any environment. -/
namespace Asca.C05Stress
open Asca Asca.Interp Asca.C03

/-- what `[±stress, tone?]` makes of a syllable, per the manual: `+stress` → primary, `-stress` → unstressed; tone replaced if named -/
def restress (b : BinMod) (t : Option Nat) (σ : Syll) : Syll :=
  { σ with stress := (if (b == .pos) = true then .primary else .unstressed), tone := (match t with | some v => v | none => σ.tone) }

/-- the matrix `[±stress]` / `[±stress, tone: n]`: stress binary, no secondary stress -/
def StressOnly (m : Modifiers) (b : BinMod) : Prop :=
  C14Supra.ProsodicOnly m ∧ m.suprs.stress = some (.bin b) ∧ m.suprs.secStress = none

/-- `apply_syll_mods` with `[±stress, tone?]` is `restress`, whatever is bound -/
theorem applySyllMods_stressOnly (σ σ' : Syll) (al : Alphas) (su : SupraSegs) (b : BinMod)
    (h1 : su.stress = some (.bin b)) (h2 : su.secStress = none) (h : σ.applySyllMods al su = .ok σ') : σ' = restress b su.tone σ := by
  simp only [Syll.applySyllMods, Syll.newStress, h1, h2, ModKind.asBool, Outcome.bind_ok, Outcome.pure_eq] at h
  have h' := Outcome.ok.inj h
  rw [← h']
  rfl

/-- every syllable is what it was, or what it was re-stressed; nothing else differs -/
def Restressed (b : BinMod) (t : Option Nat) (w w' : Word) : Prop :=
  w'.sylls.length = w.sylls.length ∧
  ∀ (i : Nat) (σ : Syll), w.sylls[i]? = some σ → (w'.sylls[i]? = some σ ∨ w'.sylls[i]? = some (restress b t σ))

theorem restress_idem (b : BinMod) (t : Option Nat) (σ : Syll) : restress b t (restress b t σ) = restress b t σ := by
  cases t <;> simp [restress]

theorem restressed_trans (b : BinMod) (t : Option Nat) (w1 w2 w3 : Word) (h12 : Restressed b t w1 w2) (h23 : Restressed b t w2 w3) :
    Restressed b t w1 w3 := by
  refine ⟨h23.1.trans h12.1, ?_⟩
  intro i σ hσ
  rcases h12.2 i σ hσ with h | h
  · exact h23.2 i σ h
  · rcases h23.2 i _ h with h' | h'
    · right; exact h'
    · right; rw [h', restress_idem]

theorem restressed_setSyll (b : BinMod) (t : Option Nat) (w : Word) (i : Nat) (σ : Syll) (hσ : w.sylls[i]? = some σ) :
    Restressed b t w (setSyll w i (restress b t σ)) := by
  refine ⟨by simp [setSyll], ?_⟩
  intro j τ hτ
  have hlen : i < w.sylls.length := (List.getElem?_eq_some_iff.mp hσ).1
  by_cases hj : j = i
  · subst hj
    rw [hσ] at hτ
    cases hτ
    right
    simp [setSyll, List.getElem?_set_self hlen]
  · left
    simp [setSyll, List.getElem?_set_ne (Ne.symm hj), hτ]

/-- **`X > [±stress]` / `X > [±stress, tone: n]`, whole scan**: every syllable of the returned word is the syllable it
    was, or that syllable re-stressed per the manual's table (and with the named tone); segments are never touched -/
theorem stress_rule_restresses (r : SubRule) (it : Item) (hit : SegItem it) (mods : Modifiers) (b : BinMod)
    (hin : r.input = [it]) (hout : r.output = [.matrix mods none]) (hm : StressOnly mods b) (hty : r.ruleType = .substitution)
    (fuel : Nat) (w w' : Word) (hne : NoEmptySyll w) (h : applySubRule fuel r w = .ok w') : Restressed b mods.suprs.tone w w' := by
  have hni : r.ruleType ≠ .insertion := by rw [hty]; decide
  simp only [applySubRule, hni, if_false] at h
  obtain ⟨hp, hs1, hs2⟩ := hm
  refine (C14Supra.matrix_rule_gen (Restressed b mods.suprs.tone) (restressed_trans b mods.suprs.tone) r it hit mods hin hout hty ?_
    fuel w w { si := 0, gi := 0 } hne ⟨rfl, fun i σ hσ => Or.inl hσ⟩ w' h).1
  intro σ σ' al al' lc gi hgi hh
  obtain ⟨e1, _, _, e4⟩ := C14Supra.applySegMods_prosodicOnly σ σ' al al' mods gi lc hp hh
  have e5 := applySyllMods_stressOnly σ σ' al mods.suprs b hs1 hs2 e4
  refine ⟨?_, fun w i hσ => by rw [e5]; exact restressed_setSyll b mods.suprs.tone w i σ hσ⟩
  rw [e1]; intro hnil; rw [hnil] at hgi; exact Nat.not_lt_zero _ hgi

/-- `[+stress, tone: 51]` -/
def demoMods : Modifiers :=
  { nodes := List.replicate 8 none, feats := List.replicate 26 none, suprs := { stress := some (.bin .pos), tone := some 51 } }

/-- the hypothesis is met -/
example : StressOnly demoMods .pos := by
  refine ⟨⟨?_, ?_, rfl, rfl⟩, rfl, rfl⟩ <;> intro x hx <;> simp [demoMods] at hx <;> exact hx

/-- and `restress` does what the manual says on a concrete syllable -/
example : (restress .pos (some 51) { segs := [], stress := .secondary, tone := 3 }).stress = .primary ∧
    (restress .neg none { segs := [], stress := .secondary, tone := 3 }).stress = .unstressed ∧
    (restress .neg none { segs := [], stress := .secondary, tone := 3 }).tone = 3 := by decide

end Asca.C05Stress
