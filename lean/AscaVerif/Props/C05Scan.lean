import AscaVerif.Props.C03
import AscaVerif.Props.C05
/-! # C05 / C14, end to end — a length rule keeps syllables, stress and tone

`X > [±long, ±overlong, ±features] / any environment` (an output matrix that names no stress and no tone, but may name
length): through the whole scan of the interpreter port the rule never creates, removes or empties a syllable and never
changes a stress or a tone.  What it does to the length of the matched run is `C05.applyLength_run` (the manual's
table); where the search resumes afterwards is `C05.cursor_after_resized_run`. -/
namespace Asca.C05Scan
open Asca Asca.Interp Asca.C03

theorem runLen_le (x : Seg) : ∀ l : List Seg, Syll.runLen x l ≤ l.length := by
  intro l
  induction l with
  | nil => simp [Syll.runLen]
  | cons y ys ih => unfold Syll.runLen; split <;> simp <;> omega

/-- a run does not reach beyond its syllable -/
theorem segLengthAt_le (σ : Syll) (pos : Nat) (h : pos < σ.segs.length) : pos + σ.segLengthAt pos ≤ σ.segs.length := by
  unfold Syll.segLengthAt
  simp only [List.getElem?_eq_getElem h]
  have := runLen_le σ.segs[pos] (σ.segs.drop (pos + 1))
  simp only [List.length_drop] at this
  omega

/-- the output matrix names neither stress nor tone -/
def NoStressTone (m : Modifiers) : Prop := m.suprs.stress = none ∧ m.suprs.secStress = none ∧ m.suprs.tone = none

/-- resizing a run never empties the syllable and leaves stress and tone alone -/
theorem applySupras_lengthOnly (σ σ' : Syll) (al : Alphas) (su : SupraSegs) (pos : Nat) (lc : Int)
    (h1 : su.stress = none) (h2 : su.secStress = none) (h3 : su.tone = none) (hpos : pos < σ.segs.length)
    (h : σ.applySupras al su pos = .ok (σ', lc)) : σ'.stress = σ.stress ∧ σ'.tone = σ.tone ∧ σ'.segs ≠ [] := by
  have hle := segLengthAt_le σ pos hpos
  have hL : 1 ≤ σ.segLengthAt pos := C03.segLengthAt_pos σ pos
  have hne : σ.segs ≠ [] := by intro hn; rw [hn] at hpos; simp at hpos
  -- every list `applyLength` can return is non-empty
  have hgrow : ∀ (seg : Seg) (t : Nat), (Syll.growTo σ.segs pos seg (σ.segLengthAt pos) t).1 ≠ [] := by
    intro seg t
    unfold Syll.growTo
    split
    · unfold Syll.insertCopies
      intro hn
      have := congrArg List.length hn
      simp at this; omega
    · exact hne
  have hshrink : ∀ (t : Nat), 1 ≤ t → (Syll.shrinkTo σ.segs pos (σ.segLengthAt pos) t).1 ≠ [] := by
    intro t ht
    unfold Syll.shrinkTo
    split
    · unfold Syll.removeN
      intro hn
      have := congrArg List.length hn
      simp at this; omega
    · exact hne
  unfold Syll.applySupras at h
  cases ha : σ.applyLength al su pos with
  | ok r =>
    obtain ⟨segs2, lc2⟩ := r
    simp only [ha, Outcome.bind_ok, Syll.applySyllMods, Syll.newStress, h1, h2, h3, Outcome.pure_eq] at h
    have hσ' : σ' = { σ with segs := segs2 } := by
      have := congrArg Prod.fst (Outcome.ok.inj h)
      simpa using this.symm
    subst hσ'
    refine ⟨rfl, rfl, ?_⟩
    -- which list is `segs2`?
    unfold Syll.applyLength at ha
    rw [List.getElem?_eq_getElem hpos] at ha
    simp only at ha
    cases hl : su.long with
    | none =>
      cases ho : su.overlong with
      | none => simp [hl, ho] at ha; rw [← ha.1]; exact hne
      | some v =>
        simp only [hl, ho] at ha
        cases hv : v.asBool al with
        | ok bv =>
          simp only [hv, Outcome.bind_ok, Outcome.pure_eq] at ha
          cases bv
          · simp at ha; have e := congrArg Prod.fst ha; simp only at e; rw [← e]; exact hshrink 2 (by omega)
          · simp at ha; have e := congrArg Prod.fst ha; simp only at e; rw [← e]; exact hgrow _ 3
        | err e => simp [hv] at ha
        | panic e => simp [hv] at ha
        | outOfFuel e => simp [hv] at ha
    | some l =>
      cases ho : su.overlong with
      | none =>
        simp only [hl, ho] at ha
        cases hv : l.asBool al with
        | ok bl =>
          simp only [hv, Outcome.bind_ok, Outcome.pure_eq] at ha
          cases bl
          · simp at ha; have e := congrArg Prod.fst ha; simp only at e; rw [← e]; exact hshrink 1 (by omega)
          · simp at ha; have e := congrArg Prod.fst ha; simp only at e; rw [← e]; exact hgrow _ 2
        | err e => simp [hv] at ha
        | panic e => simp [hv] at ha
        | outOfFuel e => simp [hv] at ha
      | some v =>
        simp only [hl, ho] at ha
        cases hvl : l.asBool al with
        | ok bl =>
          cases hvv : v.asBool al with
          | ok bv =>
            simp only [hvl, hvv, Outcome.bind_ok, Outcome.pure_eq] at ha
            cases bl <;> cases bv
            · simp at ha; have e := congrArg Prod.fst ha; simp only at e; rw [← e]; exact hshrink 1 (by omega)
            · simp at ha
            · simp only at ha
              split at ha
              · simp at ha; have e := congrArg Prod.fst ha; simp only at e; rw [← e]; exact hshrink 2 (by omega)
              · simp at ha; have e := congrArg Prod.fst ha; simp only at e; rw [← e]; exact hgrow _ 2
            · simp at ha; have e := congrArg Prod.fst ha; simp only at e; rw [← e]; exact hgrow _ 3
          | err e => simp [hvl, hvv] at ha
          | panic e => simp [hvl, hvv] at ha
          | outOfFuel e => simp [hvl, hvv] at ha
        | err e => simp [hvl] at ha
        | panic e => simp [hvl] at ha
        | outOfFuel e => simp [hvl] at ha
  | err e => simp [ha] at h
  | panic e => simp [ha] at h
  | outOfFuel e => simp [ha] at h

/-- `Syllable::apply_seg_mods` with a matrix that names no stress and no tone -/
theorem applySegMods_noStressTone (σ σ' : Syll) (al al' : Alphas) (mods : Modifiers) (pos : Nat) (lc : Int)
    (hm : NoStressTone mods) (hpos : pos < σ.segs.length) (h : σ.applySegMods al mods pos = .ok (σ', al', lc)) :
    σ'.stress = σ.stress ∧ σ'.tone = σ.tone ∧ σ'.segs ≠ [] := by
  unfold Syll.applySegMods at h
  cases hr : Syll.applyModsRun mods.nodes mods.feats (σ.segLengthAt pos) pos σ.segs al with
  | ok r =>
    obtain ⟨segs1, al1⟩ := r
    simp only [hr, Outcome.bind_ok] at h
    have hlen := C14.applyModsRun_length _ _ _ _ _ _ _ _ hr
    cases hs : ({ σ with segs := segs1 } : Syll).applySupras al1 mods.suprs pos with
    | ok r2 =>
      obtain ⟨σ2, lc2⟩ := r2
      simp only [hs, Outcome.bind_ok, Outcome.pure_eq] at h
      have e : σ2 = σ' := by have := congrArg Prod.fst (Outcome.ok.inj h); simpa using this
      subst e
      have := applySupras_lengthOnly { σ with segs := segs1 } σ2 al1 mods.suprs pos lc2 hm.1 hm.2.1 hm.2.2 (by simpa [hlen] using hpos) hs
      exact this
    | err e => simp [hs] at h
    | panic e => simp [hs] at h
    | outOfFuel e => simp [hs] at h
  | err e => simp [hr] at h
  | panic e => simp [hr] at h
  | outOfFuel e => simp [hr] at h


theorem sameProsody_setSyll (w : Word) (i : Nat) (σ σ' : Syll) (hσ : w.sylls[i]? = some σ)
    (h1 : σ'.stress = σ.stress) (h2 : σ'.tone = σ.tone) : SameProsody w (setSyll w i σ') := by
  refine ⟨by simp [setSyll], ?_⟩
  intro j
  have hlen : i < w.sylls.length := (List.getElem?_eq_some_iff.mp hσ).1
  by_cases hj : j = i
  · subst hj; simp [setSyll, hσ, List.getElem?_set_self hlen, h1, h2]
  · simp [setSyll, List.getElem?_set_ne (Ne.symm hj)]

theorem noEmptySyll_setSyll (w : Word) (i : Nat) (σ' : Syll) (h : NoEmptySyll w) (hσ' : σ'.segs ≠ []) : NoEmptySyll (setSyll w i σ') := by
  intro τ hτ
  simp only [setSyll] at hτ
  rcases List.mem_or_eq_of_mem_set hτ with h1 | h1
  · exact h τ h1
  · rw [h1]; exact hσ'

/-- **one step of `X > [matrix]`** for a matrix that names no stress and no tone (length and features allowed): if the
    step returns, only the syllable of the match changed; it kept its stress and tone and is not empty -/
theorem substitution_matrix_step_len (r : SubRule) (w : Word) (sp : SegPos) (mods : Modifiers) (inItem : Item) (σ : Syll) (b : Binds)
    (next : Option SegPos)
    (hin : r.input = [inItem]) (hout : r.output = [.matrix mods none]) (hm0 : NoStressTone mods)
    (hσ : w.sylls[sp.si]? = some σ) (hgi : sp.gi < σ.segs.length) (hwf : NoEmptySyll w)
    (res : Word × Option SegPos × Binds) (h : substitution r w [.segment sp none] next b = .ok res) :
    ∃ σ', res.1 = setSyll w sp.si σ' ∧ σ'.stress = σ.stress ∧ σ'.tone = σ.tone ∧ σ'.segs ≠ [] := by
  have hlen : sp.si < w.sylls.length := (List.getElem?_eq_some_iff.mp hσ).1
  have hrep : (List.replicate w.sylls.length (0 : Int))[sp.si]? = some 0 := by
    rw [List.getElem?_replicate]; simp [hlen]
  have hseglen : w.segLen sp = .ok (σ.segLengthAt sp.gi) := by simp [Word.segLen, Word.segLengthAt, hσ]
  unfold substitution at h
  simp only [hin, hout, List.length_singleton] at h
  cases hm : σ.applySegMods b.alphas mods sp.gi with
  | ok r3 =>
    obtain ⟨σ', al, lc⟩ := r3
    obtain ⟨h1, h2, h3⟩ := applySegMods_noStressTone σ σ' b.alphas al mods sp.gi lc hm0 hgi hm
    have hpairs : substPairs r 1 1 0 [inItem] [.matrix mods none] [.segment sp none]
        { w := w, tlc := List.replicate w.sylls.length 0, last := { si := 0, gi := 0 }, b := b } =
        .ok { w := setSyll w sp.si σ', tlc := (List.replicate w.sylls.length (0 : Int)).set sp.si (0 + lc),
              last := bumpRun sp (σ.segLengthAt sp.gi) lc 1 1 0, b := { b with alphas := al } } := by
      simp [substPairs, substStep, adjust, tlcGet, hrep, hseglen, applySegModsVar, getSyll, hσ, hm, tlcAdd]
    rw [hpairs] at h
    simp only [Outcome.bind_ok, Nat.lt_irrefl, if_false, Outcome.pure_eq] at h
    have hne' := noEmptySyll_setSyll w sp.si σ' hwf h3
    have hnn : (setSyll w sp.si σ').sylls ≠ [] := by
      intro hnil
      have h0 : (setSyll w sp.si σ').sylls.length = 0 := by rw [hnil]; rfl
      simp only [setSyll, List.length_set] at h0
      omega
    have hl2 : ((setSyll w sp.si σ').sylls.getLast hnn).segs.isEmpty = false := by
      have := hne' _ (List.getLast_mem hnn)
      cases hs2 : ((setSyll w sp.si σ').sylls.getLast hnn).segs with
      | nil => exact absurd hs2 this
      | cons a as => rfl
    rw [List.getLast?_eq_some_getLast hnn] at h
    simp only [hl2, Bool.false_eq_true, if_false] at h
    cases h
    exact ⟨σ', rfl, h1, h2, h3⟩
  | err e =>
    have : substPairs r 1 1 0 [inItem] [.matrix mods none] [.segment sp none]
        { w := w, tlc := List.replicate w.sylls.length 0, last := { si := 0, gi := 0 }, b := b } = .err e := by
      simp [substPairs, substStep, adjust, tlcGet, hrep, hseglen, applySegModsVar, getSyll, hσ, hm]
    rw [this] at h; simp at h
  | panic e =>
    have : substPairs r 1 1 0 [inItem] [.matrix mods none] [.segment sp none]
        { w := w, tlc := List.replicate w.sylls.length 0, last := { si := 0, gi := 0 }, b := b } = .panic e := by
      simp [substPairs, substStep, adjust, tlcGet, hrep, hseglen, applySegModsVar, getSyll, hσ, hm]
    rw [this] at h; simp at h
  | outOfFuel e =>
    have : substPairs r 1 1 0 [inItem] [.matrix mods none] [.segment sp none]
        { w := w, tlc := List.replicate w.sylls.length 0, last := { si := 0, gi := 0 }, b := b } = .outOfFuel e := by
      simp [substPairs, substStep, adjust, tlcGet, hrep, hseglen, applySegModsVar, getSyll, hσ, hm]
    rw [this] at h; simp at h

/-- **a length rule keeps the prosody**: `X > [±long, ±overlong, features] / any environment`: if the sub-rule returns a
    word, it has the same syllables, each with its stress and tone, and no syllable has become empty -/
theorem length_rule_keeps_prosody (r : SubRule) (it : Item) (hit : SegItem it) (mods : Modifiers)
    (hin : r.input = [it]) (hout : r.output = [.matrix mods none]) (hm0 : NoStressTone mods) (hty : r.ruleType = .substitution) :
    ∀ (fuel : Nat) (w0 w : Word) (cur : SegPos), NoEmptySyll w → SameProsody w0 w →
      ∀ w', applyLoop r fuel w cur = .ok w' → SameProsody w0 w' ∧ NoEmptySyll w' := by
  intro fuel
  induction fuel with
  | zero => intro w0 w cur _ _ w' h; simp [applyLoop] at h
  | succ fuel ih =>
    intro w0 w cur hne hsh w' hres
    rw [applyLoop] at hres
    cases hi : inputMatchAt fuel r.input w cur {} with
    | ok out =>
      obtain ⟨caps, next, b1⟩ := out
      rw [hi] at hres
      simp only [Outcome.bind_ok] at hres
      rw [hin] at hi
      rcases inputMatchAt_single w it hit fuel cur _ hi with h1 | ⟨p, nx, h1, h2, hinb⟩
      · simp only at h1; subst h1
        simp at hres; subst hres; exact ⟨hsh, hne⟩
      · simp only at h1 h2; subst h1; subst h2
        obtain ⟨L, hL⟩ := C06.segLen_of_inB w p hinb
        have hσ : ∃ σ, w.sylls[p.si]? = some σ ∧ p.gi < σ.segs.length := by
          unfold Word.inB Word.inBounds at hinb
          cases hs2 : w.sylls[p.si]? with
          | none => simp [hs2] at hinb
          | some σ => simp [hs2] at hinb; exact ⟨σ, rfl, hinb⟩
        obtain ⟨σ, hσ1, hσ2⟩ := hσ
        simp only [List.isEmpty_cons, Bool.false_eq_true, if_false, matchSpan, List.head?_cons, List.getLast?_singleton, hL,
          Outcome.bind_ok, Outcome.pure_eq] at hres
        cases hm : matchContextsAndExceptions fuel r w p (incN w (L - 1) p) true b1 with
        | ok res =>
          obtain ⟨okb, b2⟩ := res
          rw [hm] at hres
          simp only [Outcome.bind_ok] at hres
          cases okb with
          | false =>
            simp only [Bool.not_false, if_true] at hres
            exact ih w0 w nx hne hsh w' hres
          | true =>
            simp only [Bool.not_true, Bool.false_eq_true, if_false, transform, hty] at hres
            cases hsub : substitution r w [.segment p none] (some nx) b2 with
            | ok sres =>
              rw [hsub] at hres
              simp only [Outcome.bind_ok] at hres
              obtain ⟨σ', e1, e2, e3, e4⟩ := substitution_matrix_step_len r w p mods it σ b2 (some nx) hin hout hm0 hσ1 hσ2 hne sres hsub
              have hstep := sameProsody_setSyll w p.si σ σ' hσ1 e2 e3
              rw [← e1] at hstep
              have hsh' := sameProsody_trans hsh hstep
              have hne' : NoEmptySyll sres.1 := by rw [e1]; exact noEmptySyll_setSyll w p.si σ' hne e4
              cases hnx : sres.2.1 with
              | none => rw [hnx] at hres; simp at hres; subst hres; exact ⟨hsh', hne'⟩
              | some ci => rw [hnx] at hres; exact ih w0 sres.1 ci hne' hsh' w' hres
            | err e => rw [hsub] at hres; simp at hres
            | panic e => rw [hsub] at hres; simp at hres
            | outOfFuel e => rw [hsub] at hres; simp at hres
        | err e => rw [hm] at hres; simp at hres
        | panic s => rw [hm] at hres; simp at hres
        | outOfFuel s => rw [hm] at hres; simp at hres
    | err e => rw [hi] at hres; simp at hres
    | panic e => rw [hi] at hres; simp at hres
    | outOfFuel e => rw [hi] at hres; simp at hres

theorem length_subrule_keeps_prosody (r : SubRule) (it : Item) (hit : SegItem it) (mods : Modifiers)
    (hin : r.input = [it]) (hout : r.output = [.matrix mods none]) (hm0 : NoStressTone mods) (hty : r.ruleType = .substitution)
    (fuel : Nat) (w w' : Word) (hne : NoEmptySyll w) (h : applySubRule fuel r w = .ok w') : SameProsody w w' ∧ NoEmptySyll w' := by
  have hni : r.ruleType ≠ .insertion := by rw [hty]; decide
  simp only [applySubRule, hni, if_false] at h
  exact length_rule_keeps_prosody r it hit mods hin hout hm0 hty fuel w w { si := 0, gi := 0 } hne (sameProsody_refl w) w' h

/-- the hypothesis is met by `[+long]` -/
example : NoStressTone { nodes := List.replicate 8 none, feats := List.replicate 26 none, suprs := { long := some (.bin .pos) } } :=
  ⟨rfl, rfl, rfl⟩


end Asca.C05Scan
