import AscaVerif.Model.Parser
/-! C12 at the level of the rule parser: the environment shorthand `_,X` is expanded by the PARSER (`get_spec_env`,
    parser.rs:380-414), so what the interpreter sees is already the two environments. -/
namespace Asca.Parse
open Lex (Token TK)

/-- **C12, `_,X`**: whenever `get_spec_env` accepts, what it returns is the two environments `X _` and `_ X̃` (the
    elements of `X` in reverse order), both carrying the span of the shorthand -/
theorem spec_env_expands (s s' : PS) (v : List PItem) (h : getSpecEnv s = .ok (some v, s')) :
    ∃ (x : List PItem) (pos : Pos),
      v = [.mk (.environment [.mk x [] pos]) pos, .mk (.environment [.mk [] x.reverse pos]) pos] := by
  unfold getSpecEnv at h
  simp only at h
  split at h
  · simp [pure] at h
  · split at h
    · simp [pure] at h
    · cases hx : getEnvElements false ((s.expect TK.underline).snd.expect TK.comma).snd with
      | ok r =>
        simp only [hx, bind, Outcome.bind] at h
        split at h
        · simp [pure] at h
        · cases hp : ((r.snd.expect TK.underline).snd).prev with
          | ok p =>
            simp only [hp, pure, Outcome.ok.injEq, Prod.mk.injEq, Option.some.injEq] at h
            exact ⟨r.fst, _, h.1.symm⟩
          | err e => simp [hp] at h
          | panic q => simp [hp] at h
          | outOfFuel q => simp [hp] at h
      | err e => simp [hx, bind, Outcome.bind] at h
      | panic q => simp [hx, bind, Outcome.bind] at h
      | outOfFuel q => simp [hx, bind, Outcome.bind] at h

end Asca.Parse
