import AscaVerif.Lemmas.Lex
import AscaVerif.Props.C17
/-! C17 for the rule lexer: every error the lexer reports is WELL PLACED, hence formats without panicking, shows the
    line it was found on and puts its carets inside that line.

    Props/C17 proves that the formatter (error/syntax.rs) is safe exactly on well-placed errors (`start ≤ end ≤ len+1`
    on an existing line) and panics otherwise; it left open whether the front ends only produce well-placed errors.
    For the lexer that is now a theorem over all lines: the span of every `RuleSyntaxError` of lexer.rs
    (NestedBrackets, ExpectedAlphabetic, UnknownFeature, WrongModTone, ExpectedCharArrow, ExpectedCharDot,
    OutsideBrackets, UnknownEnbyFeature, ExpectedCharColon, ExpectedNumber, MalformedComment, UnknownCharacter) lies
    within the line, and so does the span of every token handed to the parser (which builds its own errors from
    token positions): consecutive, non-empty, in order, the last one the `Eol` token at `[len, len+1)`. -/
namespace Asca.Lex

/-- **token spans**: non-empty, consecutive, inside the line; the list ends with `Eol` at `[len, len + 1)` -/
theorem lexLine_token_spans (src : Text) (toks : List Token) (h : lexLine src = .ok toks) :
    WellSpaced 0 src.length toks ∧
    ∃ t, toks.getLast? = some t ∧ t.kind = .eol ∧ t.start = src.length ∧ t.stop = src.length + 1 := by
  have hs := lineLoop_spec (src.length + 1) { src := src, pos := 0 } [] (Nat.lt_succ_self _)
  unfold lexLine at h
  rw [h] at hs
  obtain ⟨new, hres, hw, ⟨t, h1, h2, h3, h4⟩, _⟩ := hs
  simp only [List.nil_append] at hres
  subst hres
  simp only [LS.total, Nat.zero_add] at hw h3 h4
  exact ⟨hw, t, h1, h2, h3, h4⟩

/-- **number tokens fit**: every `Number` token the lexer hands over holds at least one digit and is below 2^64 - so none
    of the `parse::<usize>().unwrap()` calls of the parser and the interpreter can fail (the repair of D2) -/
theorem lexLine_numbers_fit (src : Text) (toks : List Token) (h : lexLine src = .ok toks) : ∀ t ∈ toks, NumOK t := by
  have hs := lineLoop_spec (src.length + 1) { src := src, pos := 0 } [] (Nat.lt_succ_self _)
  unfold lexLine at h
  rw [h] at hs
  obtain ⟨new, hres, _, _, hnum⟩ := hs
  simp only [List.nil_append] at hres
  subst hres
  exact fun t ht => (hnum t ht).1

/-- **what the parser may rely on, token by token**: values are non-empty (except `Eol` and comments), numbers are digits,
    diacritic tokens index the table, feature tokens are `tone: digits` or a row of the feature table with a sign -/
theorem lexLine_tokens_ok (src : Text) (toks : List Token) (h : lexLine src = .ok toks) : ∀ t ∈ toks, TokX t := by
  have hs := lineLoop_spec (src.length + 1) { src := src, pos := 0 } [] (Nat.lt_succ_self _)
  unfold lexLine at h
  rw [h] at hs
  obtain ⟨new, hres, _, _, hnum⟩ := hs
  simp only [List.nil_append] at hres
  subst hres
  exact fun t ht => (hnum t ht).2

/-- every token's span is inside `[0, len + 1]` and non-empty -/
theorem wellSpaced_mem {lo total : Nat} {toks : List Token} (h : WellSpaced lo total toks) :
    ∀ t ∈ toks, lo ≤ t.start ∧ t.start < t.stop ∧ t.stop ≤ total + 1 := by
  induction toks generalizing lo with
  | nil => intro t ht; simp at ht
  | cons a r ih =>
    intro t ht
    obtain ⟨h1, h2, h3, h4⟩ := h
    rcases List.mem_cons.mp ht with rfl | hm
    · exact ⟨h1, h2, h3⟩
    · have := ih h4 t hm; omega

/-- **lexer errors are well placed** -/
theorem lexLine_error_span (src : Text) (e : LErr) (h : lexLine src = .err e) :
    e.start ≤ e.stop ∧ e.stop ≤ src.length + 1 := by
  have hs := lineLoop_spec (src.length + 1) { src := src, pos := 0 } [] (Nat.lt_succ_self _)
  unfold lexLine at h
  rw [h] at hs
  simp only [LineSpec, LS.total, Nat.zero_add] at hs
  omega

/-- **a lexer error formats**: whatever rule line the lexer rejects, the formatter shows that line, does not panic,
    and every caret is within the line (composition with `C17.format_well_placed`) -/
theorem lexer_error_formats (groups : List (List Str)) (g l : Nat) (rg : List Str) (line : Str)
    (hg : groups[g]? = some rg) (hl : rg[l]? = some line) (e : LErr)
    (he : lexLine (line.map Char.toNat) = .err e) :
    ∃ carets, ErrFmt.formatRule groups g l e.start e.stop = .ok (line, carets) ∧
      ∀ i ∈ ErrFmt.caretCols carets, i ≤ line.length := by
  have h := lexLine_error_span _ e he
  rw [List.length_map] at h
  exact C17.format_well_placed groups g l e.start e.stop rg line hg hl h.1 h.2

/-! Non-vacuity: lines the lexer rejects, with the span reported -/
example : lexLine ("a - b".toList.map Char.toNat) = .err ⟨"ExpectedCharArrow", 2, 3⟩ := by decide +kernel
example : lexLine ("[+xx]".toList.map Char.toNat) = .err ⟨"UnknownFeature", 1, 4⟩ := by decide +kernel
example : lexLine ("a > [".toList.map Char.toNat) = .ok
    [⟨.cardinal, [97], 0, 1⟩, ⟨.greaterThan, [62], 2, 3⟩, ⟨.leftSquare, [91], 4, 5⟩, ⟨.eol, [], 5, 6⟩] := by decide +kernel

end Asca.Lex
