import AscaVerif.Lemmas.Run
import AscaVerif.Props.C16
import AscaVerif.Props.C06
/-! # C02 — every call returns: no panic, no abort, no endless loop

In the model, a Rust panic and a non-terminating loop are *values* (`Outcome.panic site`, `Outcome.outOfFuel site`),
so "every call returns" is "the result is `ok` or `err`".  Proved here:
* **the runner adds no failure of its own**: if the parsers, the interpreter and the renderer return `ok`/`err`
  on every input, so do `run` and `trace_changes`, for any number of rules, groups, words (abstract runner);
* the index `trace_to_string` uses (`rules[change.rule_index]`) is always in range (from C16);
* for the literal fragment of C06 the interpreter's scan loop returns `ok` (given enough fuel) — never a panic.
**Refuted on the pinned tree** for the full grammar: the interpreter port, which agrees with the code on outcome
classes case by case (`interp-ops`), returns `panic` / `outOfFuel` on the families listed in known_findings.json
(insertion fall-backs, `$ > $`, numbers above `usize::MAX`, insertion past the end of the word with an exception or
with modifiers …).  The lexers and parsers are not ported yet; their totality is covered by the `c02-spec` search only. -/
namespace Asca.C02
open Asca Asca.Run Asca.Outcome

/-- the call returned: a value or an error value -/
def Returns {ε α : Type} (x : Outcome ε α) : Prop := (∃ a, x = .ok a) ∨ (∃ e, x = .err e)

theorem returns_bind {ε α β : Type} (x : Outcome ε α) (f : α → Outcome ε β) (hx : Returns x) (hf : ∀ a, Returns (f a)) :
    Returns (x >>= f) := by
  rcases hx with ⟨a, rfl⟩ | ⟨e, rfl⟩
  · exact hf a
  · exact Or.inr ⟨e, rfl⟩

theorem returns_mapM {ε α β : Type} (f : α → Outcome ε β) (xs : List α) (hf : ∀ x, Returns (f x)) : Returns (xs.mapM f) := by
  induction xs with
  | nil => left; exact ⟨[], by simp [mapM_nil]⟩
  | cons a as ih =>
    rw [mapM_cons]
    apply returns_bind _ _ (hf a)
    intro b
    apply returns_bind _ _ ih
    intro bs; left; exact ⟨_, rfl⟩

theorem returns_foldlM {ε α β : Type} (f : α → β → Outcome ε α) (xs : List β) (a : α) (hf : ∀ a b, Returns (f a b)) :
    Returns (xs.foldlM f a) := by
  induction xs generalizing a with
  | nil => left; exact ⟨a, rfl⟩
  | cons b bs ih =>
    rw [List.foldlM_cons]
    exact returns_bind _ _ (hf a b) (fun a' => ih a')

variable {ε R W TI TF : Type} (env : Env ε R W TI TF)

/-- every component returns on every input -/
structure ComponentsReturn : Prop where
  aliases : ∀ a b, Returns (env.parseAliases a b)
  word : ∀ ti s, Returns (env.parseWord ti s)
  rule : ∀ g l s, Returns (env.parseRule g l s)
  apply : ∀ r w, Returns (env.apply r w)

theorem parseGroupGo_returns (h : ComponentsReturn env) (rgi : Nat) : ∀ (rs : List Str) (ri : Nat) (acc : List R),
    Returns (parseGroupGo env rgi ri rs acc) := by
  intro rs
  induction rs with
  | nil => intro ri acc; left; exact ⟨_, rfl⟩
  | cons r rs ih =>
    intro ri acc
    unfold parseGroupGo
    rcases h.rule rgi ri r with ⟨a, ha⟩ | ⟨e, he⟩
    · rw [ha]; cases a <;> exact ih _ _
    · rw [he]; right; exact ⟨e, rfl⟩

theorem parseRuleGroups_returns (h : ComponentsReturn env) : ∀ (gs : List (List Str)) (rgi : Nat) (acc : List (List R)),
    Returns (parseRuleGroupsGo env rgi gs acc) := by
  intro gs
  induction gs with
  | nil => intro rgi acc; left; exact ⟨_, rfl⟩
  | cons g gs ih =>
    intro rgi acc
    unfold parseRuleGroupsGo
    rcases parseGroupGo_returns env h rgi g 0 [] with ⟨a, ha⟩ | ⟨e, he⟩
    · rw [ha]; exact ih _ _
    · rw [he]; right; exact ⟨e, rfl⟩

/-- **`run` returns whenever its components do** (any number of groups, rules, lines, words per line) -/
theorem run_returns (h : ComponentsReturn env) (groups : List (List Str)) (phrases into frm : List Str) :
    Returns (run env groups phrases into frm) := by
  unfold run
  apply returns_bind _ _ (h.aliases into frm)
  intro a
  apply returns_bind
  · unfold parsePhrases
    exact returns_mapM _ _ (fun ph => returns_mapM _ _ (fun w => h.word _ w))
  intro ps
  apply returns_bind _ _ (parseRuleGroups_returns env h groups 0 [])
  intro rs
  apply returns_bind
  · unfold applyRuleGroups
    apply returns_mapM; intro ph
    apply returns_mapM; intro w
    unfold applyWord
    apply returns_foldlM; intro w g
    unfold applyGroup
    apply returns_foldlM; intro w r
    exact h.apply r w
  intro res; left; exact ⟨_, rfl⟩

theorem traceGo_returns (h : ComponentsReturn env) : ∀ (gs : List (List R)) (i : Nat) (ph : List W) (acc : List (Nat × List W)),
    Returns (traceGo env i gs ph acc) := by
  intro gs
  induction gs with
  | nil => intro i ph acc; left; exact ⟨_, rfl⟩
  | cons g gs ih =>
    intro i ph acc
    unfold traceGo
    have : Returns (ph.mapM (applyGroup env g)) := by
      apply returns_mapM; intro w; unfold applyGroup; apply returns_foldlM; intro w r; exact h.apply r w
    rcases this with ⟨a, ha⟩ | ⟨e, he⟩
    · rw [ha]; exact ih _ _ _
    · rw [he]; right; exact ⟨e, rfl⟩

/-- **`trace_changes` returns whenever its components do** -/
theorem traceChanges_returns (h : ComponentsReturn env) (groups : List (List Str)) (phrase : Str) (into : List Str) :
    Returns (traceChanges env groups phrase into) := by
  unfold traceChanges
  apply returns_bind _ _ (h.aliases into [])
  intro a
  apply returns_bind _ _ (returns_mapM _ _ (fun w => h.word _ w))
  intro ph
  apply returns_bind _ _ (parseRuleGroups_returns env h groups 0 [])
  intro rs
  exact traceGo_returns env h rs 0 ph []

/-- `trace_to_string` indexes `rules[change.rule_index]`: every reported index is a valid group index -/
theorem trace_indices_in_range (G : List (List R)) (ph : List W) (cs : List (Nat × List W))
    (h : applyRulesTrace env G ph = .ok cs) : ∀ c ∈ cs, c.1 < G.length := by
  intro c hc
  obtain ⟨_, hsound, _, _⟩ := C16.trace_sound_complete env G ph cs h
  exact (hsound c.1 c.2 hc).1

/-- on the literal fragment the interpreter never panics and never returns an error (see C06) -/
theorem literal_fragment_returns (r : SubRule) (s : Seg) (hin : r.input = [.ipa s none]) (hty : r.ruleType ≠ .insertion)
    (w : Word) (hs : s ∉ C06.Word.segments w) (fuel : Nat) :
    ∀ site, Interp.applySubRule fuel r w ≠ .panic site := by
  intro site hc
  rcases C06.literal_absent_identity r s hin hty w hs fuel with h | ⟨x, h⟩ <;> rw [h] at hc <;> cases hc

end Asca.C02
