import AscaVerif.Model.Interp.Apply
import AscaVerif.Props.C18
/-! # C08 — every output word is well formed

`SegWF`: root and laryngeal use only their three defined bits, the place is not `Some(0)` and stores nothing under
an absent sub-node.  Proved here (for every bundle, not only those of the table):
* every grapheme of `cardinals.json` is well formed (re-checked on every build);
* setting or clearing any feature of the table, adding or removing any place (sub-)node — the only ways the
  interpreter and the word parser ever modify a bundle — preserve `SegWF`;
* a diacritic's payload preserves `SegWF`.
Word-level invariants (no empty syllable, tone shape) over whole rule sequences are decided by `c08-spec`
(`Word.WF` evaluated on every intermediate word) and the model≙impl correspondence; they are *false* on the pinned
tree for boundaries inserted or moved at a word edge (known findings D8a/D8b). -/
namespace Asca.C08
open Asca Asca.C18 Asca.Place

def SegWF (s : Seg) : Prop := s.root < 8#8 ∧ s.laryngeal < 8#8 ∧ PlaceWF s.place

instance (s : Seg) : Decidable (SegWF s) := by unfold SegWF; infer_instance

/-- every grapheme's bundle is well formed -/
theorem cardinals_wf : ∀ ks ∈ Gen.cardinals, SegWF ks.2 := by decide +kernel

/-- masks of the root and laryngeal features stay inside the three defined bits (generated table) -/
theorem small_masks : (List.range featCount).all (fun i => match featNodeMask? i with
    | some (.root, m) | some (.laryngeal, m) => decide (m < 8#8)
    | some _ => true
    | none => false) = true := by decide

private theorem or_lt8 (a b : BitVec 8) (ha : a < 8#8) (hb : b < 8#8) : (a ||| b) < 8#8 := by bv_decide
private theorem andnot_lt8 (a b : BitVec 8) (ha : a < 8#8) : (a &&& ~~~b) < 8#8 := by bv_decide

/-- **`set_feat` preserves well-formedness** for every feature of the table and both polarities -/
theorem setFeat_wf (s : Seg) (i : Nat) (n : Node) (m : BitVec 8) (h : featNodeMask? i = some (n, m)) (pol : Bool)
    (hwf : SegWF s) : SegWF (s.setFeat n m pol) := by
  have hi : i < featCount := by
    apply Classical.byContradiction; intro hc
    have : Gen.featTable[i]? = none := by apply List.getElem?_eq_none; unfold featCount at hc; omega
    simp [featNodeMask?, this] at h
  obtain ⟨n', m', h', hfit⟩ := featTable_ok i hi
  rw [h] at h'; cases h'
  have hsm := List.all_eq_true.mp small_masks i (List.mem_range.mpr hi)
  rw [h] at hsm
  obtain ⟨hr, hl, hp⟩ := hwf
  cases n with
  | root =>
    have hm : m < 8#8 := by simpa using hsm
    cases pol
    · simp only [Seg.setFeat, Bool.false_eq_true, if_false, Seg.getNode, Seg.setNodeSome]
      exact ⟨andnot_lt8 _ _ hr, hl, hp⟩
    · simp only [Seg.setFeat, if_true, Seg.getNode, Option.getD, Seg.setNodeSome]
      exact ⟨or_lt8 _ _ hr hm, hl, hp⟩
  | manner =>
    cases pol
    · simp only [Seg.setFeat, Bool.false_eq_true, if_false, Seg.getNode, Seg.setNodeSome]; exact ⟨hr, hl, hp⟩
    · simp only [Seg.setFeat, if_true, Seg.getNode, Option.getD, Seg.setNodeSome]; exact ⟨hr, hl, hp⟩
  | laryngeal =>
    have hm : m < 8#8 := by simpa using hsm
    cases pol
    · simp only [Seg.setFeat, Bool.false_eq_true, if_false, Seg.getNode, Seg.setNodeSome]
      exact ⟨hr, andnot_lt8 _ _ hl, hp⟩
    · simp only [Seg.setFeat, if_true, Seg.getNode, Option.getD, Seg.setNodeSome]
      exact ⟨hr, or_lt8 _ _ hl hm, hp⟩
  | sub k =>
    cases pol
    · simp only [Seg.setFeat, Bool.false_eq_true, if_false]
      cases hg : s.getNode (.sub k) with
      | none => exact ⟨hr, hl, hp⟩
      | some v =>
        simp only [Seg.setNodeSome]
        refine ⟨hr, hl, ?_⟩
        apply set_wf _ _ _ _ hp
        intro x hx; cases hx
        exact and_inRange k v m (getNode_inRange s (.sub k) v hg)
    · simp only [Seg.setFeat, if_true, Seg.setNodeSome]
      refine ⟨hr, hl, ?_⟩
      apply set_wf _ _ _ _ hp
      intro x hx; cases hx
      apply or_inRange k _ _ _ hfit
      cases hg : s.getNode (.sub k) with
      | none => exact zero_inRange k
      | some v => exact getNode_inRange s (.sub k) v hg

/-- **adding / removing place nodes preserves well-formedness** (`[-place]`, `[±lab]` …) -/
theorem setSub_wf (s : Seg) (k : Sub) (v : Option (BitVec 8)) (hv : ∀ m, v = some m → InRange k m) (hwf : SegWF s) :
    SegWF { s with place := setSub k s.place v } :=
  ⟨hwf.1, hwf.2.1, set_wf s.place k v hv hwf.2.2⟩

theorem minus_place_wf (s : Seg) (hwf : SegWF s) : SegWF { s with place := none } := ⟨hwf.1, hwf.2.1, trivial⟩

/-- one binary feature modifier of a matrix (`apply_seg_mods`) preserves well-formedness -/
theorem applyFeatMod_bin_wf (s s' : Seg) (al al' : Alphas) (i : Nat) (pol : BinMod) (ipa : Bool) (hwf : SegWF s)
    (h : s.applyFeatMod al i (.bin pol) ipa = .ok (s', al')) : SegWF s' := by
  unfold Seg.applyFeatMod at h
  cases hf : featNodeMask? i with
  | none => simp [hf] at h
  | some nm =>
    obtain ⟨n, m⟩ := nm
    cases pol <;> simp [hf] at h <;> (rw [← h.1]; exact setFeat_wf s i n m hf _ hwf)

/-- one binary node modifier preserves well-formedness -/
theorem applyNodeMod_bin_wf (s s' : Seg) (al al' : Alphas) (nk : NodeKind) (pol : BinMod) (ipa : Bool) (hwf : SegWF s)
    (h : s.applyNodeMod al nk (.bin pol) ipa = .ok (s', al')) : SegWF s' := by
  cases pol <;> cases nk <;> simp [Seg.applyNodeMod, Seg.setNodeKind, Seg.getNodeKind, NodeKind.toNode?, Seg.setNode?] at h
  all_goals first
    | (rw [← h.1]; exact minus_place_wf s hwf)
    | (rw [← h.1]; exact setSub_wf s _ none (by intro m hm; cases hm) hwf)
    | (split at h <;> simp at h <;> rw [← h.1]
       · exact setSub_wf s _ (some 0#8) (by intro m hm; cases hm; exact zero_inRange _) hwf
       · exact hwf)

/-! Non-vacuity -/
example : SegWF ⟨4#8, 0#8, 0#8, some 32768#16⟩ ∧ ¬ SegWF ⟨4#8, 0#8, 0#8, some 3#16⟩ ∧ ¬ SegWF ⟨9#8, 0#8, 0#8, none⟩ := by decide

end Asca.C08
