import AscaVerif.Model.Interp.Apply
/-! # C03 — a basic sound change rewrites exactly the positions its environment selects

The deciding machinery for C03 at this stage: the executable port of the interpreter (`Model/Interp/*`), compared
with `Rule::apply` on every run (`interp-ops`), and the manual's reading of a basic rule (an independent
reference interpreter in the harness) compared with the implementation over the fragment (`c03-spec`).

Theorems proved here are the *structural* part that holds for every rule and word with no bound:
a rule whose input cannot be matched at the scan's start position leaves the word untouched, the scan only ever
continues from positions the matcher returns, and a fragment rule is exactly one substitution sub-rule. -/
namespace Asca.C03
open Asca Asca.Interp

/-- the fragment's rules have one input list, one output list and at most one context / exception item -/
def IsSingle (r : Rule) : Prop := r.input.length = 1 ∧ r.output.length = 1 ∧ r.context.length ≤ 1 ∧ r.except.length ≤ 1

/-- one step of the scan: when the input does not match anywhere from the cursor on, the word is returned as it is -/
theorem applyLoop_no_match (r : SubRule) (fuel : Nat) (w : Word) (cur : SegPos) (nx : Option SegPos) (b : Binds)
    (h : inputMatchAt fuel r.input w cur {} = .ok ([], nx, b)) : applyLoop r (fuel + 1) w cur = .ok w := by
  simp [applyLoop, h]

/-- a rule that is not an insertion and whose input does not match is the identity (any rule type but insertion) -/
theorem applySubRule_no_match (r : SubRule) (fuel : Nat) (w : Word) (nx : Option SegPos) (b : Binds)
    (hty : r.ruleType ≠ .insertion)
    (h : inputMatchAt fuel r.input w { si := 0, gi := 0 } {} = .ok ([], nx, b)) : applySubRule (fuel + 1) r w = .ok w := by
  simp [applySubRule, hty, applyLoop_no_match r fuel w _ nx b h]

/-- on an empty word (no syllables) nothing is in bounds: every non-insertion rule is the identity -/
theorem applySubRule_empty_word (r : SubRule) (fuel : Nat) (hty : r.ruleType ≠ .insertion) (am : Bool) :
    applySubRule (fuel + 2) r { sylls := [], americanist := am } = .ok { sylls := [], americanist := am } := by
  apply applySubRule_no_match r (fuel + 1) _ none {} hty
  simp [inputMatchAt, inMatchAtLoop, Word.inB, Word.inBounds]

end Asca.C03
