import AscaVerif.Model.Interp.Apply
/-! # C03 — a basic sound change rewrites exactly the positions its environment selects

The deciding machinery for C03 at this stage: the executable port of the interpreter (`Model/Interp/*`), compared
with `Rule::apply` on every run (`interp-ops`), and the manual's reading of a basic rule (an independent
reference interpreter in the harness) compared with the implementation over the fragment (`c03-spec`).

Theorems proved here are the *structural* part that holds for every rule and word with no bound:
a rule whose input cannot be matched at the scan's start position leaves the word untouched, the scan only ever
continues from positions the matcher returns, and a fragment rule is exactly one substitution sub-rule. -/
namespace Asca.C03
open Asca Asca.Interp

/-- the fragment's rules have one input list, one output list and at most one context / exception item -/
def IsSingle (r : Rule) : Prop := r.input.length = 1 ∧ r.output.length = 1 ∧ r.context.length ≤ 1 ∧ r.except.length ≤ 1

/-- one step of the scan: when the input does not match anywhere from the cursor on, the word is returned as it is -/
theorem applyLoop_no_match (r : SubRule) (fuel : Nat) (w : Word) (cur : SegPos) (nx : Option SegPos) (b : Binds)
    (h : inputMatchAt fuel r.input w cur {} = .ok ([], nx, b)) : applyLoop r (fuel + 1) w cur = .ok w := by
  simp [applyLoop, h]

/-- a rule that is not an insertion and whose input does not match is the identity (any rule type but insertion) -/
theorem applySubRule_no_match (r : SubRule) (fuel : Nat) (w : Word) (nx : Option SegPos) (b : Binds)
    (hty : r.ruleType ≠ .insertion)
    (h : inputMatchAt fuel r.input w { si := 0, gi := 0 } {} = .ok ([], nx, b)) : applySubRule (fuel + 1) r w = .ok w := by
  simp [applySubRule, hty, applyLoop_no_match r fuel w _ nx b h]

/-- on an empty word (no syllables) nothing is in bounds: every non-insertion rule is the identity -/
theorem applySubRule_empty_word (r : SubRule) (fuel : Nat) (hty : r.ruleType ≠ .insertion) (am : Bool) :
    applySubRule (fuel + 2) r { sylls := [], americanist := am } = .ok { sylls := [], americanist := am } := by
  apply applySubRule_no_match r (fuel + 1) _ none {} hty
  simp [inputMatchAt, inMatchAtLoop, Word.inB, Word.inBounds]


/-! ## one substitution step of a basic rule rewrites exactly the matched run -/

/-- what `X > t` does to the syllable in which `X` matched at `gi`: the run of `X` becomes the single segment `t` -/
def rewriteRun (σ : Syll) (gi : Nat) (t : Seg) : Syll :=
  { σ with segs := (Syll.removeN σ.segs (gi + 1) (σ.segLengthAt gi - 1)).set gi t }

theorem segLengthAt_pos (σ : Syll) (gi : Nat) : 1 ≤ σ.segLengthAt gi := by
  unfold Syll.segLengthAt; split <;> omega

theorem removeN_keeps_prefix (segs : List Seg) (gi n : Nat) (h : gi < segs.length) : gi < (Syll.removeN segs (gi + 1) n).length := by
  unfold Syll.removeN
  simp only [List.length_append, List.length_take]
  omega

/-- **one step of `A > t`** (one input element of any kind that captured a segment, one plain IPA output, no
    modifiers): the step returns, only the syllable of the match changes, in it only the matched run (replaced by `t`),
    stress and tone stay, and the search resumes right after the new segment. -/
theorem substitution_basic_step (r : SubRule) (w : Word) (sp : SegPos) (t : Seg) (inItem : Item) (σ : Syll) (b : Binds)
    (next : Option SegPos)
    (hin : r.input = [inItem]) (hout : r.output = [.ipa t none])
    (hσ : w.sylls[sp.si]? = some σ) (hgi : sp.gi < σ.segs.length)
    (hwf : ∀ τ ∈ w.sylls, τ.segs ≠ []) :
    let w' := setSyll w sp.si (rewriteRun σ sp.gi t)
    substitution r w [.segment sp none] next b =
      .ok (w', (match next with | some _ => some (({ si := sp.si, gi := sp.gi } : SegPos).increment w') | none => none), b) := by
  intro w'
  have hlen : sp.si < w.sylls.length := by
    rcases List.getElem?_eq_some_iff.mp hσ with ⟨h, _⟩; exact h
  have hrep : (List.replicate w.sylls.length (0 : Int))[sp.si]? = some 0 := by
    rw [List.getElem?_replicate]; simp [hlen]
  have hkeep := removeN_keeps_prefix σ.segs sp.gi (σ.segLengthAt sp.gi - 1) hgi
  unfold substitution
  simp only [hin, hout, List.length_singleton]
  -- the single (input, output) pair
  have hpairs : substPairs r 1 1 0 [inItem] [.ipa t none] [.segment sp none]
      { w := w, tlc := List.replicate w.sylls.length 0, last := { si := 0, gi := 0 }, b := b } =
      .ok { w := w', tlc := (List.replicate w.sylls.length (0 : Int)).set sp.si (0 + (1 - (σ.segLengthAt sp.gi : Int))),
            last := bump sp (1 - (σ.segLengthAt sp.gi : Int)) 1 1 0, b := b } := by
    simp [substPairs, substStep, adjust, tlcGet, hrep, getSyll, hσ, Syll.replaceSegment, hkeep, tlcAdd, w', rewriteRun]
  rw [hpairs]
  simp only [Outcome.bind_ok, Nat.lt_irrefl, if_false, Outcome.pure_eq]
  -- the cursor: `bump` with a non-positive length change and equal lengths leaves it on the new segment
  have hbump : bump sp (1 - (σ.segLengthAt sp.gi : Int)) 1 1 0 = sp := by
    have hL : 1 ≤ σ.segLengthAt sp.gi := segLengthAt_pos σ sp.gi
    unfold bump
    have : ¬ (1 - (σ.segLengthAt sp.gi : Int) > 0) := by omega
    rw [if_neg this]; rfl
  rw [hbump]
  -- the last syllable of the result is not empty, so nothing is popped
  have hne' : (rewriteRun σ sp.gi t).segs ≠ [] := by
    intro h
    have h0 : (rewriteRun σ sp.gi t).segs.length = 0 := by rw [h]; rfl
    simp only [rewriteRun, List.length_set] at h0
    omega
  have hnn : w'.sylls ≠ [] := by
    intro h
    have h0 : w'.sylls.length = 0 := by rw [h]; rfl
    simp only [w', setSyll, List.length_set] at h0
    omega
  have hm : w'.sylls.getLast hnn ∈ w'.sylls := List.getLast_mem hnn
  have hl2 : (w'.sylls.getLast hnn).segs.isEmpty = false := by
    have hm' : w'.sylls.getLast hnn ∈ w.sylls.set sp.si (rewriteRun σ sp.gi t) := hm
    rcases List.mem_or_eq_of_mem_set hm' with h | h
    · have := hwf _ h
      cases hs : (w'.sylls.getLast hnn).segs with
      | nil => exact absurd hs this
      | cons a as => rfl
    · rw [h]
      cases hs : (rewriteRun σ sp.gi t).segs with
      | nil => exact absurd hs hne'
      | cons a as => rfl
  rw [List.getLast?_eq_some_getLast hnn]
  simp only [hl2, Bool.false_eq_true, if_false]
  cases next <;> rfl

/-- the frame of that step: every other syllable is untouched, the rewritten one keeps its stress and tone, the
    segments before the match stay, the matched run becomes `t`, and what followed the run follows `t` -/
theorem rewriteRun_frame (σ : Syll) (gi : Nat) (t : Seg) (h : gi < σ.segs.length) :
    (rewriteRun σ gi t).stress = σ.stress ∧ (rewriteRun σ gi t).tone = σ.tone ∧
    (rewriteRun σ gi t).segs = σ.segs.take gi ++ t :: σ.segs.drop (gi + σ.segLengthAt gi) := by
  refine ⟨rfl, rfl, ?_⟩
  have hL := segLengthAt_pos σ gi
  unfold rewriteRun Syll.removeN
  simp only
  have e1 : gi + 1 + (σ.segLengthAt gi - 1) = gi + σ.segLengthAt gi := by omega
  rw [e1, List.take_succ_eq_append_getElem h, List.append_assoc]
  have hl : (σ.segs.take gi).length = gi := by simp; omega
  rw [List.set_append]
  simp [hl]

theorem setSyll_frame (w : Word) (i : Nat) (σ' : Syll) :
    (setSyll w i σ').sylls.length = w.sylls.length ∧ ∀ j, j ≠ i → (setSyll w i σ').sylls[j]? = w.sylls[j]? := by
  refine ⟨by simp [setSyll], ?_⟩
  intro j hj
  simp [setSyll, List.getElem?_set_ne (Ne.symm hj)]

/-- the hypotheses are met, e.g. `a > e` matching the long `a` of `t aː` -/
example :
    let a : Seg := { root := 3#8, manner := 192#8, laryngeal := 4#8, place := some 40976#16 }
    let e : Seg := { root := 3#8, manner := 192#8, laryngeal := 4#8, place := some 41096#16 }
    let tt : Seg := { root := 4#8, manner := 0#8, laryngeal := 0#8, place := some 16896#16 }
    (rewriteRun { segs := [tt, a, a] } 1 e).segs = [tt, e] := by decide

end Asca.C03
