import AscaVerif.Model.Interp.Apply
import AscaVerif.Props.C06
import AscaVerif.Props.C14
/-! # C03 — a basic sound change rewrites exactly the positions its environment selects

The deciding machinery for C03 at this stage: the executable port of the interpreter (`Model/Interp/*`), compared
with `Rule::apply` on every run (`interp-ops`), and the manual's reading of a basic rule (an independent
reference interpreter in the harness) compared with the implementation over the fragment (`c03-spec`).

Theorems proved here are the *structural* part that holds for every rule and word with no bound:
a rule whose input cannot be matched at the scan's start position leaves the word untouched, the scan only ever
continues from positions the matcher returns, and a fragment rule is exactly one substitution sub-rule. -/
namespace Asca.C03
open Asca Asca.Interp

/-- the fragment's rules have one input list, one output list and at most one context / exception item -/
def IsSingle (r : Rule) : Prop := r.input.length = 1 ∧ r.output.length = 1 ∧ r.context.length ≤ 1 ∧ r.except.length ≤ 1

/-- one step of the scan: when the input does not match anywhere from the cursor on, the word is returned as it is -/
theorem applyLoop_no_match (r : SubRule) (fuel : Nat) (w : Word) (cur : SegPos) (nx : Option SegPos) (b : Binds)
    (h : inputMatchAt fuel r.input w cur {} = .ok ([], nx, b)) : applyLoop r (fuel + 1) w cur = .ok w := by
  simp [applyLoop, h]

/-- a rule that is not an insertion and whose input does not match is the identity (any rule type but insertion) -/
theorem applySubRule_no_match (r : SubRule) (fuel : Nat) (w : Word) (nx : Option SegPos) (b : Binds)
    (hty : r.ruleType ≠ .insertion)
    (h : inputMatchAt fuel r.input w { si := 0, gi := 0 } {} = .ok ([], nx, b)) : applySubRule (fuel + 1) r w = .ok w := by
  simp [applySubRule, hty, applyLoop_no_match r fuel w _ nx b h]

/-- on an empty word (no syllables) nothing is in bounds: every non-insertion rule is the identity -/
theorem applySubRule_empty_word (r : SubRule) (fuel : Nat) (hty : r.ruleType ≠ .insertion) (am : Bool) :
    applySubRule (fuel + 2) r { sylls := [], americanist := am } = .ok { sylls := [], americanist := am } := by
  apply applySubRule_no_match r (fuel + 1) _ none {} hty
  simp [inputMatchAt, inMatchAtLoop, Word.inB, Word.inBounds]


/-! ## one substitution step of a basic rule rewrites exactly the matched run -/

/-- what `X > t` does to the syllable in which `X` matched at `gi`: the run of `X` becomes the single segment `t` -/
def rewriteRun (σ : Syll) (gi : Nat) (t : Seg) : Syll :=
  { σ with segs := (Syll.removeN σ.segs (gi + 1) (σ.segLengthAt gi - 1)).set gi t }

theorem segLengthAt_pos (σ : Syll) (gi : Nat) : 1 ≤ σ.segLengthAt gi := by
  unfold Syll.segLengthAt; split <;> omega

theorem removeN_keeps_prefix (segs : List Seg) (gi n : Nat) (h : gi < segs.length) : gi < (Syll.removeN segs (gi + 1) n).length := by
  unfold Syll.removeN
  simp only [List.length_append, List.length_take]
  omega

/-- **one step of `A > t`** (one input element of any kind that captured a segment, one plain IPA output, no
    modifiers): the step returns, only the syllable of the match changes, in it only the matched run (replaced by `t`),
    stress and tone stay, and the search resumes right after the new segment. -/
theorem substitution_basic_step (r : SubRule) (w : Word) (sp : SegPos) (t : Seg) (inItem : Item) (σ : Syll) (b : Binds)
    (next : Option SegPos)
    (hin : r.input = [inItem]) (hout : r.output = [.ipa t none])
    (hσ : w.sylls[sp.si]? = some σ) (hgi : sp.gi < σ.segs.length)
    (hwf : ∀ τ ∈ w.sylls, τ.segs ≠ []) :
    let w' := setSyll w sp.si (rewriteRun σ sp.gi t)
    substitution r w [.segment sp none] next b =
      .ok (w', (match next with | some _ => some (({ si := sp.si, gi := sp.gi } : SegPos).increment w') | none => none), b) := by
  intro w'
  have hlen : sp.si < w.sylls.length := by
    rcases List.getElem?_eq_some_iff.mp hσ with ⟨h, _⟩; exact h
  have hrep : (List.replicate w.sylls.length (0 : Int))[sp.si]? = some 0 := by
    rw [List.getElem?_replicate]; simp [hlen]
  have hkeep := removeN_keeps_prefix σ.segs sp.gi (σ.segLengthAt sp.gi - 1) hgi
  unfold substitution
  simp only [hin, hout, List.length_singleton]
  -- the single (input, output) pair
  have hpairs : substPairs r 1 1 0 [inItem] [.ipa t none] [.segment sp none]
      { w := w, tlc := List.replicate w.sylls.length 0, last := { si := 0, gi := 0 }, b := b } =
      .ok { w := w', tlc := (List.replicate w.sylls.length (0 : Int)).set sp.si (0 + (1 - (σ.segLengthAt sp.gi : Int))),
            last := bump sp (1 - (σ.segLengthAt sp.gi : Int)) 1 1 0, b := b } := by
    simp [substPairs, substStep, adjust, tlcGet, hrep, getSyll, hσ, Syll.replaceSegment, hkeep, tlcAdd, w', rewriteRun]
  rw [hpairs]
  simp only [Outcome.bind_ok, Nat.lt_irrefl, if_false, Outcome.pure_eq]
  -- the cursor: `bump` with a non-positive length change and equal lengths leaves it on the new segment
  have hbump : bump sp (1 - (σ.segLengthAt sp.gi : Int)) 1 1 0 = sp := by
    have hL : 1 ≤ σ.segLengthAt sp.gi := segLengthAt_pos σ sp.gi
    unfold bump
    have : ¬ (1 - (σ.segLengthAt sp.gi : Int) > 0) := by omega
    rw [if_neg this]; rfl
  rw [hbump]
  -- the last syllable of the result is not empty, so nothing is popped
  have hne' : (rewriteRun σ sp.gi t).segs ≠ [] := by
    intro h
    have h0 : (rewriteRun σ sp.gi t).segs.length = 0 := by rw [h]; rfl
    simp only [rewriteRun, List.length_set] at h0
    omega
  have hnn : w'.sylls ≠ [] := by
    intro h
    have h0 : w'.sylls.length = 0 := by rw [h]; rfl
    simp only [w', setSyll, List.length_set] at h0
    omega
  have hm : w'.sylls.getLast hnn ∈ w'.sylls := List.getLast_mem hnn
  have hl2 : (w'.sylls.getLast hnn).segs.isEmpty = false := by
    have hm' : w'.sylls.getLast hnn ∈ w.sylls.set sp.si (rewriteRun σ sp.gi t) := hm
    rcases List.mem_or_eq_of_mem_set hm' with h | h
    · have := hwf _ h
      cases hs : (w'.sylls.getLast hnn).segs with
      | nil => exact absurd hs this
      | cons a as => rfl
    · rw [h]
      cases hs : (rewriteRun σ sp.gi t).segs with
      | nil => exact absurd hs hne'
      | cons a as => rfl
  rw [List.getLast?_eq_some_getLast hnn]
  simp only [hl2, Bool.false_eq_true, if_false]
  cases next <;> rfl

/-- the frame of that step: every other syllable is untouched, the rewritten one keeps its stress and tone, the
    segments before the match stay, the matched run becomes `t`, and what followed the run follows `t` -/
theorem rewriteRun_frame (σ : Syll) (gi : Nat) (t : Seg) (h : gi < σ.segs.length) :
    (rewriteRun σ gi t).stress = σ.stress ∧ (rewriteRun σ gi t).tone = σ.tone ∧
    (rewriteRun σ gi t).segs = σ.segs.take gi ++ t :: σ.segs.drop (gi + σ.segLengthAt gi) := by
  refine ⟨rfl, rfl, ?_⟩
  have hL := segLengthAt_pos σ gi
  unfold rewriteRun Syll.removeN
  simp only
  have e1 : gi + 1 + (σ.segLengthAt gi - 1) = gi + σ.segLengthAt gi := by omega
  rw [e1, List.take_succ_eq_append_getElem h, List.append_assoc]
  have hl : (σ.segs.take gi).length = gi := by simp; omega
  rw [List.set_append]
  simp [hl]

theorem setSyll_frame (w : Word) (i : Nat) (σ' : Syll) :
    (setSyll w i σ').sylls.length = w.sylls.length ∧ ∀ j, j ≠ i → (setSyll w i σ').sylls[j]? = w.sylls[j]? := by
  refine ⟨by simp [setSyll], ?_⟩
  intro j hj
  simp [setSyll, List.getElem?_set_ne (Ne.symm hj)]

/-- the hypotheses are met, e.g. `a > e` matching the long `a` of `t aː` -/
example :
    let a : Seg := { root := 3#8, manner := 192#8, laryngeal := 4#8, place := some 40976#16 }
    let e : Seg := { root := 3#8, manner := 192#8, laryngeal := 4#8, place := some 41096#16 }
    let tt : Seg := { root := 4#8, manner := 0#8, laryngeal := 0#8, place := some 16896#16 }
    (rewriteRun { segs := [tt, a, a] } 1 e).segs = [tt, e] := by decide


/-! ## the whole scan of a basic rule `a > t` rewrites only runs of `a`, into `t` -/

/-- `w'` results from `w` by rewriting, one after another, runs that begin with `a` into the single segment `t` -/
inductive Rewrites (a t : Seg) : Word → Word → Prop where
  | refl (w : Word) : Rewrites a t w w
  | step (w w1 : Word) (sp : SegPos) (σ : Syll) : Rewrites a t w w1 → w1.sylls[sp.si]? = some σ → σ.segs[sp.gi]? = some a →
      Rewrites a t w (setSyll w1 sp.si (rewriteRun σ sp.gi t))

/-- no syllable is empty -/
def NoEmptySyll (w : Word) : Prop := ∀ τ ∈ w.sylls, τ.segs ≠ []

theorem noEmptySyll_step (w : Word) (sp : SegPos) (σ : Syll) (t : Seg) (h : NoEmptySyll w) (hgi : sp.gi < σ.segs.length) :
    NoEmptySyll (setSyll w sp.si (rewriteRun σ sp.gi t)) := by
  intro τ hτ
  simp only [setSyll] at hτ
  rcases List.mem_or_eq_of_mem_set hτ with h1 | h1
  · exact h τ h1
  · rw [h1]
    intro hnil
    have h0 : (rewriteRun σ sp.gi t).segs.length = 0 := by rw [hnil]; rfl
    have := removeN_keeps_prefix σ.segs sp.gi (σ.segLengthAt sp.gi - 1) hgi
    simp only [rewriteRun, List.length_set] at h0
    omega

/-- what a rewriting chain preserves: the number of syllables and every syllable's stress and tone -/
theorem rewrites_prosody (a t : Seg) (w w' : Word) (h : Rewrites a t w w') :
    w'.sylls.length = w.sylls.length ∧
    ∀ i : Nat, (w'.sylls[i]?).map (fun σ : Syll => (σ.stress, σ.tone)) = (w.sylls[i]?).map (fun σ : Syll => (σ.stress, σ.tone)) := by
  induction h with
  | refl => exact ⟨rfl, fun _ => rfl⟩
  | step w1 sp σ _ hσ _ ih =>
    obtain ⟨hl, hp⟩ := ih
    refine ⟨by simp [setSyll, hl], ?_⟩
    intro i
    rw [← hp i]
    have hlen : sp.si < w1.sylls.length := (List.getElem?_eq_some_iff.mp hσ).1
    by_cases hi : i = sp.si
    · subst hi
      simp [setSyll, hσ, List.getElem?_set_self hlen, rewriteRun]
    · simp [setSyll, List.getElem?_set_ne (Ne.symm hi)]

/-- the scan of `input_match_at` for a single literal: no match, out of fuel, or exactly one captured position, in
    bounds, holding the literal -/
theorem scan_literal (w : Word) (a : Seg) :
    ∀ (fuel : Nat) (cur : SegPos) (b : Binds),
      (∃ b', inMatchAtLoop [.ipa a none] fuel w cur none 0 [] b = .ok ([], none, none, false, b')) ∨
      (∃ site, inMatchAtLoop [.ipa a none] fuel w cur none 0 [] b = .outOfFuel site) ∨
      (∃ p nx b', inMatchAtLoop [.ipa a none] fuel w cur none 0 [] b = .ok ([.segment p none], some nx, none, true, b') ∧
          w.inB p = true ∧ w.segAt p = some a) := by
  intro fuel
  induction fuel with
  | zero => intro cur b; right; left; exact ⟨_, rfl⟩
  | succ fuel ih =>
    intro cur b
    cases hb : w.inB cur with
    | false => left; exact ⟨b, by simp [inMatchAtLoop, hb]⟩
    | true =>
      cases fuel with
      | zero => right; left; exact ⟨"input_match_item", by simp [inMatchAtLoop, hb, inMatchItem]⟩
      | succ fuel =>
        obtain ⟨seg, hseg⟩ := C06.segAt_of_inB w cur hb
        obtain ⟨L, hL⟩ := C06.segLen_of_inB w cur hb
        by_cases heq : a = seg
        · -- a hit: the loop returns at once with this one capture
          right; right
          refine ⟨cur, (incN w (L - 1) cur).increment w, b, ?_, hb, by rw [hseg, heq]⟩
          rw [inMatchAtLoop]
          simp [hb, inMatchItem, inMatchIpa, hseg, skipRun, hL, heq]
        · -- a miss: the scan goes on behind this run, with fresh bindings
          have step : inMatchAtLoop [.ipa a none] (fuel + 1 + 1) w cur none 0 [] b
              = inMatchAtLoop [.ipa a none] (fuel + 1) w ((incN w (L - 1) cur).increment w) none 0 [] {} := by
            rw [inMatchAtLoop]
            simp [hb, inMatchItem, inMatchIpa, hseg, skipRun, hL, heq]
          rw [step]
          exact ih _ {}

/-- **soundness of the scan of `a > t`** (one literal in, one literal out, no environment): whatever the word, the
    sub-rule returns a word obtained by rewriting runs of `a` into `t` and nothing else — same syllables, same stress
    and tone (`rewrites_prosody`), every other segment in place (`rewriteRun_frame`) — or reports that the fuel given
    was too small.  It never returns an error, a panic, or a word changed anywhere else. -/
theorem basic_scan_sound (r : SubRule) (a t : Seg) (hin : r.input = [.ipa a none]) (hout : r.output = [.ipa t none])
    (hctx : r.context = none) (hexc : r.except = none) (hty : r.ruleType = .substitution) :
    ∀ (fuel : Nat) (w0 w : Word) (cur : SegPos), NoEmptySyll w → Rewrites a t w0 w →
      (∃ w', applyLoop r fuel w cur = .ok w' ∧ Rewrites a t w0 w' ∧ NoEmptySyll w') ∨ (∃ site, applyLoop r fuel w cur = .outOfFuel site) := by
  intro fuel
  induction fuel with
  | zero => intro w0 w cur _ _; right; exact ⟨_, rfl⟩
  | succ fuel ih =>
    intro w0 w cur hne hrw
    rcases scan_literal w a fuel cur {} with ⟨b', h⟩ | ⟨site, h⟩ | ⟨p, nx, b', h, hinb, hat⟩
    · left
      refine ⟨w, ?_, hrw, hne⟩
      simp [applyLoop, inputMatchAt, hin, h]
    · right
      exact ⟨site, by simp [applyLoop, inputMatchAt, hin, h]⟩
    · -- a capture at `p`: span, (empty) environment, one substitution step, and on from the returned position
      obtain ⟨L, hL⟩ := C06.segLen_of_inB w p hinb
      have hσ : ∃ σ, w.sylls[p.si]? = some σ ∧ p.gi < σ.segs.length ∧ σ.segs[p.gi]? = some a := by
        unfold Word.inB Word.inBounds at hinb
        unfold Word.segAt Word.getSegAt at hat
        cases hs : w.sylls[p.si]? with
        | none => simp [hs] at hinb
        | some σ =>
          simp [hs] at hinb hat
          exact ⟨σ, rfl, hinb, by simpa using hat⟩
      obtain ⟨σ, hσ1, hσ2, hσ3⟩ := hσ
      have hstep := substitution_basic_step r w p t (.ipa a none) σ b' (some nx) hin hout hσ1 hσ2 hne
      simp only at hstep
      have hloop : applyLoop r (fuel + 1) w cur
          = applyLoop r fuel (setSyll w p.si (rewriteRun σ p.gi t)) (({ si := p.si, gi := p.gi } : SegPos).increment (setSyll w p.si (rewriteRun σ p.gi t))) := by
        rw [applyLoop]
        simp [inputMatchAt, hin, h, matchSpan, hL, matchContextsAndExceptions, hctx, hexc, envsOf, transform, hty, hstep]
      rw [hloop]
      exact ih w0 _ _ (noEmptySyll_step w p σ t hne hσ2) (Rewrites.step w0 w p σ hrw hσ1 hσ3)

/-- the same for `SubRule::apply` started at the beginning of the word -/
theorem basic_rule_sound (r : SubRule) (a t : Seg) (hin : r.input = [.ipa a none]) (hout : r.output = [.ipa t none])
    (hctx : r.context = none) (hexc : r.except = none) (hty : r.ruleType = .substitution) (fuel : Nat) (w : Word) (hne : NoEmptySyll w) :
    (∃ w', applySubRule fuel r w = .ok w' ∧ Rewrites a t w w' ∧ w'.sylls.length = w.sylls.length) ∨ (∃ site, applySubRule fuel r w = .outOfFuel site) := by
  have hni : r.ruleType ≠ .insertion := by rw [hty]; decide
  rcases basic_scan_sound r a t hin hout hctx hexc hty fuel w w { si := 0, gi := 0 } hne (Rewrites.refl w) with ⟨w', h1, h2, _⟩ | ⟨site, h⟩
  · left; exact ⟨w', by simp [applySubRule, hni, h1], h2, (rewrites_prosody a t w w' h2).1⟩
  · right; exact ⟨site, by simp [applySubRule, hni, h]⟩



/-- **with any environment**: `a > t / X _ Y | Z _ W` (contexts and exceptions of any shape, matched by the full
    environment matcher) still rewrites nothing but runs of `a`: if the sub-rule returns a word at all, that word is a
    rewriting of the input.  The environment decides WHICH occurrences change, never WHAT else changes. -/
theorem basic_scan_sound_env (r : SubRule) (a t : Seg) (hin : r.input = [.ipa a none]) (hout : r.output = [.ipa t none])
    (hty : r.ruleType = .substitution) :
    ∀ (fuel : Nat) (w0 w : Word) (cur : SegPos), NoEmptySyll w → Rewrites a t w0 w →
      ∀ w', applyLoop r fuel w cur = .ok w' → Rewrites a t w0 w' ∧ NoEmptySyll w' := by
  intro fuel
  induction fuel with
  | zero => intro w0 w cur _ _ w' h; simp [applyLoop] at h
  | succ fuel ih =>
    intro w0 w cur hne hrw w' hres
    rcases scan_literal w a fuel cur {} with ⟨b', h⟩ | ⟨site, h⟩ | ⟨p, nx, b', h, hinb, hat⟩
    · have : applyLoop r (fuel + 1) w cur = .ok w := by simp [applyLoop, inputMatchAt, hin, h]
      rw [this] at hres; cases hres; exact ⟨hrw, hne⟩
    · have : applyLoop r (fuel + 1) w cur = .outOfFuel site := by simp [applyLoop, inputMatchAt, hin, h]
      rw [this] at hres; cases hres
    · obtain ⟨L, hL⟩ := C06.segLen_of_inB w p hinb
      have hσ : ∃ σ, w.sylls[p.si]? = some σ ∧ p.gi < σ.segs.length ∧ σ.segs[p.gi]? = some a := by
        unfold Word.inB Word.inBounds at hinb
        unfold Word.segAt Word.getSegAt at hat
        cases hs : w.sylls[p.si]? with
        | none => simp [hs] at hinb
        | some σ =>
          simp [hs] at hinb hat
          exact ⟨σ, rfl, hinb, by simpa using hat⟩
      obtain ⟨σ, hσ1, hσ2, hσ3⟩ := hσ
      have hloop : applyLoop r (fuel + 1) w cur =
          (matchContextsAndExceptions fuel r w p (incN w (L - 1) p) true b' >>= fun res =>
            if !res.1 then applyLoop r fuel w nx
            else (transform fuel r w [.segment p none] (some nx) res.2 >>= fun x =>
              match x.2.1 with
              | some ci => applyLoop r fuel x.1 ci
              | none => .ok x.1)) := by
        rw [applyLoop]
        simp [inputMatchAt, hin, h, matchSpan, hL]
        rfl
      rw [hloop] at hres
      cases hm : matchContextsAndExceptions fuel r w p (incN w (L - 1) p) true b' with
      | ok res =>
        obtain ⟨okb, b2⟩ := res
        rw [hm] at hres
        simp only [Outcome.bind_ok] at hres
        cases okb with
        | false =>
          simp only [Bool.not_false, if_true] at hres
          exact ih w0 w nx hne hrw w' hres
        | true =>
          simp only [Bool.not_true, Bool.false_eq_true, if_false] at hres
          have hstep := substitution_basic_step r w p t (.ipa a none) σ b2 (some nx) hin hout hσ1 hσ2 hne
          simp only at hstep
          simp only [transform, hty, hstep, Outcome.bind_ok] at hres
          exact ih w0 _ _ (noEmptySyll_step w p σ t hne hσ2) (Rewrites.step w0 w p σ hrw hσ1 hσ3) w' hres
      | err e => rw [hm] at hres; simp at hres
      | panic s => rw [hm] at hres; simp at hres
      | outOfFuel s => rw [hm] at hres; simp at hres

theorem basic_rule_sound_env (r : SubRule) (a t : Seg) (hin : r.input = [.ipa a none]) (hout : r.output = [.ipa t none])
    (hty : r.ruleType = .substitution) (fuel : Nat) (w w' : Word) (hne : NoEmptySyll w) (h : applySubRule fuel r w = .ok w') :
    Rewrites a t w w' ∧ w'.sylls.length = w.sylls.length := by
  have hni : r.ruleType ≠ .insertion := by rw [hty]; decide
  simp only [applySubRule, hni, if_false] at h
  have := (basic_scan_sound_env r a t hin hout hty fuel w w { si := 0, gi := 0 } hne (Rewrites.refl w) w' h).1
  exact ⟨this, (rewrites_prosody a t w w' this).1⟩



/-! ## any single-segment input (`a`, `a:[mods]`, a matrix, a group): what the scan can return -/

/-- the input is one element that matches one segment -/
def SegItem : Item → Prop
  | .ipa _ _ => True
  | .matrix _ _ => True
  | _ => False

theorem skipRun_ok (w : Word) (p : SegPos) (h : w.inB p = true) : ∃ q, skipRun w p = .ok q := by
  obtain ⟨L, hL⟩ := C06.segLen_of_inB w p h
  exact ⟨incN w (L - 1) p, by simp [skipRun, hL]⟩

/-- one item step of a single-segment input: a hit captures exactly the position it was asked about -/
theorem inMatchItem_seg (fuel : Nat) (w : Word) (it : Item) (hit : SegItem it) (pos : SegPos) (b : Binds) (hb : w.inB pos = true)
    (r : IR) (h : inMatchItem (fuel + 1) w [it] [] 0 pos b = .ok r) :
    (r.ok = true ∧ r.caps = [.segment pos none] ∧ r.si = 1) ∨ (r.ok = false ∧ r.caps = [] ∧ r.si = 0) := by
  obtain ⟨seg, hseg⟩ := C06.segAt_of_inB w pos hb
  obtain ⟨q, hq⟩ := skipRun_ok w pos hb
  cases it with
  | ipa s m =>
    simp only [inMatchItem, List.getElem?_cons_zero, inMatchIpa, hseg] at h
    cases m with
    | none =>
      simp only [Outcome.pure_eq, Outcome.bind_ok, hq] at h
      by_cases hs : s = seg
      · simp [hs] at h; subst h; left; exact ⟨rfl, rfl, rfl⟩
      · simp [hs] at h; subst h; right; exact ⟨rfl, rfl, rfl⟩
    | some m =>
      cases hm : matchModifiers w (joinMods s m) pos b with
      | ok res =>
        obtain ⟨hitb, b1⟩ := res
        simp only [hm, Outcome.bind_ok, hq, Outcome.pure_eq] at h
        cases hitb
        · simp at h; subst h; right; exact ⟨rfl, rfl, rfl⟩
        · simp at h; subst h; left; exact ⟨rfl, rfl, rfl⟩
      | err e => simp [hm] at h
      | panic e => simp [hm] at h
      | outOfFuel e => simp [hm] at h
  | matrix m v =>
    simp only [inMatchItem, List.getElem?_cons_zero, inMatchMatrix] at h
    cases hm : matchModifiers w m pos b with
    | ok res =>
      obtain ⟨hitb, b1⟩ := res
      simp only [hm, Outcome.bind_ok, hq] at h
      cases hitb
      · simp at h; subst h; right; exact ⟨rfl, rfl, rfl⟩
      · simp [hseg] at h; subst h; left; exact ⟨rfl, rfl, rfl⟩
    | err e => simp [hm] at h
    | panic e => simp [hm] at h
    | outOfFuel e => simp [hm] at h
  | _ => exact absurd hit (by simp [SegItem])

/-- the scan for a single-segment input: when it returns, it returns no match or exactly one in-bounds capture -/
theorem scan_single (w : Word) (it : Item) (hit : SegItem it) :
    ∀ (fuel : Nat) (cur : SegPos) (b : Binds) (res : List MatchEl × Option SegPos × Option SegPos × Bool × Binds),
      inMatchAtLoop [it] fuel w cur none 0 [] b = .ok res →
      (res.1 = [] ∧ res.2.2.2.1 = false) ∨ (∃ p nx, res.1 = [.segment p none] ∧ res.2.1 = some nx ∧ res.2.2.2.1 = true ∧ w.inB p = true) := by
  intro fuel
  induction fuel with
  | zero => intro cur b res h; simp [inMatchAtLoop] at h
  | succ fuel ih =>
    intro cur b res h
    cases hb : w.inB cur with
    | false =>
      simp [inMatchAtLoop, hb] at h
      subst h; left; exact ⟨rfl, rfl⟩
    | true =>
      cases fuel with
      | zero => simp [inMatchAtLoop, hb, inMatchItem] at h
      | succ fuel =>
        rw [inMatchAtLoop] at h
        simp only [hb, Bool.not_true, Bool.false_eq_true, if_false] at h
        cases hi : inMatchItem (fuel + 1) w [it] [] 0 cur b with
        | ok r =>
          rw [hi] at h
          simp only [Outcome.bind_ok] at h
          rcases inMatchItem_seg fuel w it hit cur b hb r hi with ⟨h1, h2, h3⟩ | ⟨h1, h2, h3⟩
          · simp [h1, h3] at h
            subst h
            right
            exact ⟨cur, _, h2, rfl, rfl, hb⟩
          · simp [h1] at h
            exact ih _ _ res h
        | err e => rw [hi] at h; simp at h
        | panic e => rw [hi] at h; simp at h
        | outOfFuel e => rw [hi] at h; simp at h



/-! ## a feature-changing rule `X > [features]` keeps the shape of the word -/

/-- same number of syllables, and in every syllable the same number of segments, the same stress and the same tone -/
def SameShape (w w' : Word) : Prop :=
  w'.sylls.length = w.sylls.length ∧
  ∀ i : Nat, (w'.sylls[i]?).map (fun σ : Syll => (σ.segs.length, σ.stress, σ.tone)) = (w.sylls[i]?).map (fun σ : Syll => (σ.segs.length, σ.stress, σ.tone))

theorem sameShape_refl (w : Word) : SameShape w w := ⟨rfl, fun _ => rfl⟩

theorem sameShape_trans {w1 w2 w3 : Word} (h12 : SameShape w1 w2) (h23 : SameShape w2 w3) : SameShape w1 w3 :=
  ⟨h23.1.trans h12.1, fun i => (h23.2 i).trans (h12.2 i)⟩

theorem sameShape_setSyll (w : Word) (i : Nat) (σ σ' : Syll) (hσ : w.sylls[i]? = some σ)
    (h1 : σ'.stress = σ.stress) (h2 : σ'.tone = σ.tone) (h3 : σ'.segs.length = σ.segs.length) : SameShape w (setSyll w i σ') := by
  refine ⟨by simp [setSyll], ?_⟩
  intro j
  have hlen : i < w.sylls.length := (List.getElem?_eq_some_iff.mp hσ).1
  by_cases hj : j = i
  · subst hj; simp [setSyll, hσ, List.getElem?_set_self hlen, h1, h2, h3]
  · simp [setSyll, List.getElem?_set_ne (Ne.symm hj)]

theorem noEmptySyll_of_sameShape (w w' : Word) (h : SameShape w w') (hne : NoEmptySyll w) : NoEmptySyll w' := by
  intro τ hτ
  obtain ⟨i, hi, rfl⟩ := List.getElem_of_mem hτ
  have h2 := h.2 i
  have hi' : i < w.sylls.length := h.1 ▸ hi
  simp [List.getElem?_eq_getElem hi, List.getElem?_eq_getElem hi'] at h2
  intro hnil
  have : (w.sylls[i]).segs ≠ [] := hne _ (List.getElem_mem hi')
  have hl : (w'.sylls[i]).segs.length = 0 := by rw [hnil]; rfl
  rw [h2.1] at hl
  exact this (List.eq_nil_of_length_eq_zero hl)

/-- **one step of `X > [features]`** (output: one matrix naming no length, stress or tone, no variable): if the step
    returns, the word has the same shape, and only the syllable of the match was touched -/
theorem substitution_matrix_step (r : SubRule) (w : Word) (sp : SegPos) (mods : Modifiers) (inItem : Item) (σ : Syll) (b : Binds)
    (next : Option SegPos)
    (hin : r.input = [inItem]) (hout : r.output = [.matrix mods none]) (hs : mods.suprs = {})
    (hσ : w.sylls[sp.si]? = some σ) (hgi : sp.gi < σ.segs.length) (hwf : NoEmptySyll w)
    (res : Word × Option SegPos × Binds) (h : substitution r w [.segment sp none] next b = .ok res) :
    ∃ σ', res.1 = setSyll w sp.si σ' ∧ σ'.stress = σ.stress ∧ σ'.tone = σ.tone ∧ σ'.segs.length = σ.segs.length ∧
      ∃ al lc, σ.applySegMods b.alphas mods sp.gi = .ok (σ', al, lc) := by
  have hlen : sp.si < w.sylls.length := (List.getElem?_eq_some_iff.mp hσ).1
  have hrep : (List.replicate w.sylls.length (0 : Int))[sp.si]? = some 0 := by
    rw [List.getElem?_replicate]; simp [hlen]
  have hseglen : w.segLen sp = .ok (σ.segLengthAt sp.gi) := by simp [Word.segLen, Word.segLengthAt, hσ]
  unfold substitution at h
  simp only [hin, hout, List.length_singleton] at h
  cases hm : σ.applySegMods b.alphas mods sp.gi with
  | ok r3 =>
    obtain ⟨σ', al, lc⟩ := r3
    obtain ⟨h1, h2, h3, h4⟩ := C14.applySegMods_noSupra σ σ' b.alphas al mods sp.gi lc hs hm
    subst h4
    have hpairs : substPairs r 1 1 0 [inItem] [.matrix mods none] [.segment sp none]
        { w := w, tlc := List.replicate w.sylls.length 0, last := { si := 0, gi := 0 }, b := b } =
        .ok { w := setSyll w sp.si σ', tlc := (List.replicate w.sylls.length (0 : Int)).set sp.si (0 + 0),
              last := bumpRun sp (σ.segLengthAt sp.gi) 0 1 1 0, b := { b with alphas := al } } := by
      simp [substPairs, substStep, adjust, tlcGet, hrep, hseglen, applySegModsVar, getSyll, hσ, hm, tlcAdd]
    rw [hpairs] at h
    simp only [Outcome.bind_ok, Nat.lt_irrefl, if_false, Outcome.pure_eq] at h
    -- the last syllable of the result is not empty
    have hshape := sameShape_setSyll w sp.si σ σ' hσ h1 h2 h3
    have hne' := noEmptySyll_of_sameShape w _ hshape hwf
    have hnn : (setSyll w sp.si σ').sylls ≠ [] := by
      intro hnil
      have h0 : (setSyll w sp.si σ').sylls.length = 0 := by rw [hnil]; rfl
      simp only [setSyll, List.length_set] at h0
      omega
    have hl2 : ((setSyll w sp.si σ').sylls.getLast hnn).segs.isEmpty = false := by
      have := hne' _ (List.getLast_mem hnn)
      cases hs2 : ((setSyll w sp.si σ').sylls.getLast hnn).segs with
      | nil => exact absurd hs2 this
      | cons a as => rfl
    rw [List.getLast?_eq_some_getLast hnn] at h
    simp only [hl2, Bool.false_eq_true, if_false] at h
    cases h
    exact ⟨σ', rfl, h1, h2, h3, al, 0, rfl⟩
  | err e =>
    have : substPairs r 1 1 0 [inItem] [.matrix mods none] [.segment sp none]
        { w := w, tlc := List.replicate w.sylls.length 0, last := { si := 0, gi := 0 }, b := b } = .err e := by
      simp [substPairs, substStep, adjust, tlcGet, hrep, hseglen, applySegModsVar, getSyll, hσ, hm]
    rw [this] at h; simp at h
  | panic e =>
    have : substPairs r 1 1 0 [inItem] [.matrix mods none] [.segment sp none]
        { w := w, tlc := List.replicate w.sylls.length 0, last := { si := 0, gi := 0 }, b := b } = .panic e := by
      simp [substPairs, substStep, adjust, tlcGet, hrep, hseglen, applySegModsVar, getSyll, hσ, hm]
    rw [this] at h; simp at h
  | outOfFuel e =>
    have : substPairs r 1 1 0 [inItem] [.matrix mods none] [.segment sp none]
        { w := w, tlc := List.replicate w.sylls.length 0, last := { si := 0, gi := 0 }, b := b } = .outOfFuel e := by
      simp [substPairs, substStep, adjust, tlcGet, hrep, hseglen, applySegModsVar, getSyll, hσ, hm]
    rw [this] at h; simp at h



theorem inputMatchAt_single (w : Word) (it : Item) (hit : SegItem it) (fuel : Nat) (cur : SegPos)
    (out : List MatchEl × Option SegPos × Binds) (h : inputMatchAt fuel [it] w cur {} = .ok out) :
    out.1 = [] ∨ (∃ p nx, out.1 = [.segment p none] ∧ out.2.1 = some nx ∧ w.inB p = true) := by
  unfold inputMatchAt at h
  cases hl : inMatchAtLoop [it] fuel w cur none 0 [] {} with
  | ok res =>
    obtain ⟨caps, next, mb, full, b1⟩ := res
    rw [hl] at h
    simp only [Outcome.bind_ok] at h
    rcases scan_single w it hit fuel cur {} _ hl with ⟨h1, h2⟩ | ⟨p, nx, h1, h2, h3, h4⟩
    · simp only at h1 h2
      subst h1; subst h2
      cases mb with
      | none => simp at h; subst h; left; rfl
      | some x =>
        cases it with
        | ipa s m => simp at h; subst h; left; rfl
        | matrix m v => simp at h; subst h; left; rfl
        | _ => exact absurd hit (by simp [SegItem])
    · simp only at h1 h2 h3
      subst h1; subst h2; subst h3
      simp at h; subst h
      right; exact ⟨p, nx, rfl, rfl, h4⟩
  | err e => rw [hl] at h; simp at h
  | panic e => rw [hl] at h; simp at h
  | outOfFuel e => rw [hl] at h; simp at h

/-- **a feature-changing rule keeps the shape of the word**: `X > [features] / any environment`, with `X` one segment
    element (a literal, a literal with modifiers, a matrix, a group) and the output one matrix that names no length,
    stress or tone.  Whatever the word and however many matches: if the sub-rule returns a word, it has the same
    syllables, each with the same number of segments, the same stress and the same tone. -/
theorem feature_rule_keeps_shape (r : SubRule) (it : Item) (hit : SegItem it) (mods : Modifiers)
    (hin : r.input = [it]) (hout : r.output = [.matrix mods none]) (hs : mods.suprs = {}) (hty : r.ruleType = .substitution) :
    ∀ (fuel : Nat) (w0 w : Word) (cur : SegPos), NoEmptySyll w → SameShape w0 w →
      ∀ w', applyLoop r fuel w cur = .ok w' → SameShape w0 w' ∧ NoEmptySyll w' := by
  intro fuel
  induction fuel with
  | zero => intro w0 w cur _ _ w' h; simp [applyLoop] at h
  | succ fuel ih =>
    intro w0 w cur hne hsh w' hres
    rw [applyLoop] at hres
    cases hi : inputMatchAt fuel r.input w cur {} with
    | ok out =>
      obtain ⟨caps, next, b1⟩ := out
      rw [hi] at hres
      simp only [Outcome.bind_ok] at hres
      rw [hin] at hi
      rcases inputMatchAt_single w it hit fuel cur _ hi with h1 | ⟨p, nx, h1, h2, hinb⟩
      · simp only at h1; subst h1
        simp at hres; subst hres; exact ⟨hsh, hne⟩
      · simp only at h1 h2; subst h1; subst h2
        obtain ⟨L, hL⟩ := C06.segLen_of_inB w p hinb
        have hσ : ∃ σ, w.sylls[p.si]? = some σ ∧ p.gi < σ.segs.length := by
          unfold Word.inB Word.inBounds at hinb
          cases hs2 : w.sylls[p.si]? with
          | none => simp [hs2] at hinb
          | some σ => simp [hs2] at hinb; exact ⟨σ, rfl, hinb⟩
        obtain ⟨σ, hσ1, hσ2⟩ := hσ
        simp only [List.isEmpty_cons, Bool.false_eq_true, if_false, matchSpan, List.head?_cons, List.getLast?_singleton, hL,
          Outcome.bind_ok, Outcome.pure_eq] at hres
        cases hm : matchContextsAndExceptions fuel r w p (incN w (L - 1) p) true b1 with
        | ok res =>
          obtain ⟨okb, b2⟩ := res
          rw [hm] at hres
          simp only [Outcome.bind_ok] at hres
          cases okb with
          | false =>
            simp only [Bool.not_false, if_true] at hres
            exact ih w0 w nx hne hsh w' hres
          | true =>
            simp only [Bool.not_true, Bool.false_eq_true, if_false, transform, hty] at hres
            cases hsub : substitution r w [.segment p none] (some nx) b2 with
            | ok sres =>
              rw [hsub] at hres
              simp only [Outcome.bind_ok] at hres
              obtain ⟨σ', e1, e2, e3, e4, _⟩ := substitution_matrix_step r w p mods it σ b2 (some nx) hin hout hs hσ1 hσ2 hne sres hsub
              have hstep := sameShape_setSyll w p.si σ σ' hσ1 e2 e3 e4
              rw [← e1] at hstep
              have hsh' := sameShape_trans hsh hstep
              have hne' := noEmptySyll_of_sameShape w sres.1 hstep hne
              cases hnx : sres.2.1 with
              | none => rw [hnx] at hres; simp at hres; subst hres; exact ⟨hsh', hne'⟩
              | some ci => rw [hnx] at hres; exact ih w0 sres.1 ci hne' hsh' w' hres
            | err e => rw [hsub] at hres; simp at hres
            | panic e => rw [hsub] at hres; simp at hres
            | outOfFuel e => rw [hsub] at hres; simp at hres
        | err e => rw [hm] at hres; simp at hres
        | panic s => rw [hm] at hres; simp at hres
        | outOfFuel s => rw [hm] at hres; simp at hres
    | err e => rw [hi] at hres; simp at hres
    | panic e => rw [hi] at hres; simp at hres
    | outOfFuel e => rw [hi] at hres; simp at hres

/-- the same for `SubRule::apply` -/
theorem feature_subrule_keeps_shape (r : SubRule) (it : Item) (hit : SegItem it) (mods : Modifiers)
    (hin : r.input = [it]) (hout : r.output = [.matrix mods none]) (hs : mods.suprs = {}) (hty : r.ruleType = .substitution)
    (fuel : Nat) (w w' : Word) (hne : NoEmptySyll w) (h : applySubRule fuel r w = .ok w') : SameShape w w' := by
  have hni : r.ruleType ≠ .insertion := by rw [hty]; decide
  simp only [applySubRule, hni, if_false] at h
  exact (feature_rule_keeps_shape r it hit mods hin hout hs hty fuel w w { si := 0, gi := 0 } hne (sameShape_refl w) w' h).1



/-! ## `X > t / env` for any single-segment input keeps the prosody -/

/-- same number of syllables, each with the same stress and tone -/
def SameProsody (w w' : Word) : Prop :=
  w'.sylls.length = w.sylls.length ∧
  ∀ i : Nat, (w'.sylls[i]?).map (fun σ : Syll => (σ.stress, σ.tone)) = (w.sylls[i]?).map (fun σ : Syll => (σ.stress, σ.tone))

theorem sameProsody_refl (w : Word) : SameProsody w w := ⟨rfl, fun _ => rfl⟩

theorem sameProsody_trans {w1 w2 w3 : Word} (h12 : SameProsody w1 w2) (h23 : SameProsody w2 w3) : SameProsody w1 w3 :=
  ⟨h23.1.trans h12.1, fun i => (h23.2 i).trans (h12.2 i)⟩

theorem sameProsody_rewriteRun (w : Word) (sp : SegPos) (σ : Syll) (t : Seg) (hσ : w.sylls[sp.si]? = some σ) :
    SameProsody w (setSyll w sp.si (rewriteRun σ sp.gi t)) := by
  refine ⟨by simp [setSyll], ?_⟩
  intro j
  have hlen : sp.si < w.sylls.length := (List.getElem?_eq_some_iff.mp hσ).1
  by_cases hj : j = sp.si
  · subst hj; simp [setSyll, hσ, List.getElem?_set_self hlen, rewriteRun]
  · simp [setSyll, List.getElem?_set_ne (Ne.symm hj)]

/-- **a replacement rule keeps the prosody**: `X > t / any environment`, `X` any single-segment element (literal,
    literal with modifiers, matrix, group), `t` a plain IPA segment: if the sub-rule returns a word, it has the same
    syllables with the same stress and tone; every step replaced one matched run by `t` (`rewriteRun_frame`). -/
theorem replacement_rule_keeps_prosody (r : SubRule) (it : Item) (hit : SegItem it) (t : Seg)
    (hin : r.input = [it]) (hout : r.output = [.ipa t none]) (hty : r.ruleType = .substitution) :
    ∀ (fuel : Nat) (w0 w : Word) (cur : SegPos), NoEmptySyll w → SameProsody w0 w →
      ∀ w', applyLoop r fuel w cur = .ok w' → SameProsody w0 w' ∧ NoEmptySyll w' := by
  intro fuel
  induction fuel with
  | zero => intro w0 w cur _ _ w' h; simp [applyLoop] at h
  | succ fuel ih =>
    intro w0 w cur hne hsh w' hres
    rw [applyLoop] at hres
    cases hi : inputMatchAt fuel r.input w cur {} with
    | ok out =>
      obtain ⟨caps, next, b1⟩ := out
      rw [hi] at hres
      simp only [Outcome.bind_ok] at hres
      rw [hin] at hi
      rcases inputMatchAt_single w it hit fuel cur _ hi with h1 | ⟨p, nx, h1, h2, hinb⟩
      · simp only at h1; subst h1
        simp at hres; subst hres; exact ⟨hsh, hne⟩
      · simp only at h1 h2; subst h1; subst h2
        obtain ⟨L, hL⟩ := C06.segLen_of_inB w p hinb
        have hσ : ∃ σ, w.sylls[p.si]? = some σ ∧ p.gi < σ.segs.length := by
          unfold Word.inB Word.inBounds at hinb
          cases hs2 : w.sylls[p.si]? with
          | none => simp [hs2] at hinb
          | some σ => simp [hs2] at hinb; exact ⟨σ, rfl, hinb⟩
        obtain ⟨σ, hσ1, hσ2⟩ := hσ
        simp only [List.isEmpty_cons, Bool.false_eq_true, if_false, matchSpan, List.head?_cons, List.getLast?_singleton, hL,
          Outcome.bind_ok, Outcome.pure_eq] at hres
        cases hm : matchContextsAndExceptions fuel r w p (incN w (L - 1) p) true b1 with
        | ok res =>
          obtain ⟨okb, b2⟩ := res
          rw [hm] at hres
          simp only [Outcome.bind_ok] at hres
          cases okb with
          | false =>
            simp only [Bool.not_false, if_true] at hres
            exact ih w0 w nx hne hsh w' hres
          | true =>
            have hstep := substitution_basic_step r w p t it σ b2 (some nx) hin hout hσ1 hσ2 hne
            simp only at hstep
            simp only [Bool.not_true, Bool.false_eq_true, if_false, transform, hty, hstep, Outcome.bind_ok] at hres
            exact ih w0 _ _ (noEmptySyll_step w p σ t hne hσ2) (sameProsody_trans hsh (sameProsody_rewriteRun w p σ t hσ1)) w' hres
        | err e => rw [hm] at hres; simp at hres
        | panic s => rw [hm] at hres; simp at hres
        | outOfFuel s => rw [hm] at hres; simp at hres
    | err e => rw [hi] at hres; simp at hres
    | panic e => rw [hi] at hres; simp at hres
    | outOfFuel e => rw [hi] at hres; simp at hres


end Asca.C03
