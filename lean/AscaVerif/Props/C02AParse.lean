import AscaVerif.Lemmas.AParse
import AscaVerif.Props.C02ALex
/-! C02 for the alias parser: no loop of `AliasParser::parse` runs for ever, on any token list and hence on any
    romaniser or deromaniser line.  The model (Model/AliasParser.lean) is `alias/parser.rs` function by function; its
    five loops (`get_replacements`, `get_param_args`, the diacritics of `get_ipa`, `get_segment`, `get_input`) take fuel;
    the theorems say the fuel is never used up: a replacement term, a segment item and a `,` each consume a real token,
    `Eol` is never consumed before the end.  A line is parsed, rejected with an `AliasSyntaxError`, or hits a modelled
    panic site (a feature with an alpha value, known finding D31; the index panics are not known to be reachable). -/
namespace Asca.AParse
open ALex (AToken ATK)
open Parse (PErr PRes)

theorem expectArrow_le (s : APS) (hi : Inv s) : Le s (expectArrow s).2 := by
  unfold expectArrow
  rcases expect_cases s .arrow hi (by decide) with ⟨he, h1⟩ | he
  · simp only [he, if_true]; exact h1.toLe
  · simp only [he, Bool.false_eq_true, if_false]
    rcases expect_cases s .greaterThan hi (by decide) with ⟨he2, h2⟩ | he2
    · rw [he2]; exact h2.toLe
    · rw [he2]; exact Le.refl s hi

theorem pairUp_nofuel (a b : List AItem) : NoFuel (pairUp a b) := by
  unfold pairUp
  simp only
  split
  · trivial
  · split <;> trivial

theorem getLine_nofuel (derom : Bool) (s : APS) (hi : Inv s) : NoFuel (getLine derom s) := by
  unfold getLine
  have h1 : Spec Le s (if derom = true then getReplacements s else getInput s) := by
    split
    · exact getReplacements_spec s hi
    · exact getInput_spec s hi
  refine Spec.bindN h1 (fun ins s1 hle1 => ?_)
  have h2 := expectArrow_le s1 hle1.inv
  rcases he : expectArrow s1 with ⟨a, s2⟩
  rw [he] at h2
  simp only [he]
  cases a with
  | false => trivial
  | true =>
    simp only [Bool.not_true, Bool.false_eq_true, if_false]
    have h3 : Spec Le s2 (if derom = true then getInput s2 else getReplacements s2) := by
      split
      · exact getInput_spec s2 h2.inv
      · exact getReplacements_spec s2 h2.inv
    refine Spec.bindN h3 (fun outs s3 hle3 => ?_)
    rcases hx : s3.expect .eol with ⟨e, s4⟩
    simp only
    cases e with
    | false => trivial
    | true => exact pairUp_nofuel ins outs

/-- **the alias parser terminates** on every token list -/
theorem parse_terminates (derom : Bool) (toks : List AToken) : NoFuel (parse derom toks) := by
  unfold parse
  split
  · trivial
  · rename_i t rest
    split
    · trivial
    · exact getLine_nofuel derom _ (by intro h; simp at h)

/-- **alias lexer and parser together return on every line** or panic at a modelled site: never an endless loop -/
theorem parseLine_terminates (derom : Bool) (src : Text) : NoFuel (parseLine derom src) := by
  unfold parseLine
  rcases ALex.lexLine_returns derom src with ⟨toks, h⟩ | ⟨e, h⟩
  · rw [h]; exact parse_terminates derom toks
  · rw [h]; trivial

end Asca.AParse
