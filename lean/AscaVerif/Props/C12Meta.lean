import AscaVerif.Model.Interp.Apply
/-! C12, mechanism "metathesis swaps captured elements pairwise from the ends": **`&` reverses any number of captured
    segments**.  Over the port of the `Metathesis` arm of `SubRule::transform` (Model/Interp/Apply.lean, compared with
    the code on every run by interp-ops and c12-spec): when the captured elements are segments at pairwise distinct
    positions of the word, the loop `for z in 0..n/2 { swap(input[z], input[n-1-z]) }` returns a word in which the
    segment at the `i`-th captured position is the segment that stood at the `(n-1-i)`-th, for EVERY `i` and every `n`
    (an odd middle element stays), and every other position holds what it held.  This is what the expansion
    `A=1 B=2 … > n … 2 1` writes, element by element. -/
namespace Asca.C12Meta
open Asca Interp

theorem segAt_setSegAt_same (w w1 : Word) (p : SegPos) (s : Seg) (site : String) (h : setSegAt w p s site = .ok w1) :
    w1.segAt p = some s := by
  unfold setSegAt getSyll at h
  cases hσ : w.sylls[p.si]? with
  | none => simp [hσ, bind, Outcome.bind] at h
  | some σ =>
    simp only [hσ, bind, Outcome.bind] at h
    split at h
    · rename_i hlt
      simp only [pure, Outcome.ok.injEq] at h
      subst h
      have hsi : p.si < w.sylls.length := by
        rcases List.getElem?_eq_some_iff.mp hσ with ⟨h1, _⟩; exact h1
      simp [Word.segAt, Word.getSegAt, setSyll, hsi, hlt]
    · cases h

theorem segAt_setSegAt_other (w w1 : Word) (p q : SegPos) (s : Seg) (site : String) (h : setSegAt w p s site = .ok w1) (hq : q ≠ p) :
    w1.segAt q = w.segAt q := by
  unfold setSegAt getSyll at h
  cases hσ : w.sylls[p.si]? with
  | none => simp [hσ, bind, Outcome.bind] at h
  | some σ =>
    simp only [hσ, bind, Outcome.bind] at h
    split at h
    · simp only [pure, Outcome.ok.injEq] at h
      subst h
      simp only [Word.segAt, Word.getSegAt, setSyll]
      by_cases hs : q.si = p.si
      · have hg : q.gi ≠ p.gi := by
          intro hg; apply hq; cases q; cases p; simp_all
        rw [hs, List.getElem?_set]
        by_cases hlt : p.si < w.sylls.length
        · simp only [hlt, if_true, hσ]
          rw [List.getElem?_set]
          have : ¬ p.gi = q.gi := fun h' => hg h'.symm
          simp [this]
        · have : w.sylls[p.si]? = none := List.getElem?_eq_none (by omega)
          rw [hσ] at this; cases this
      · rw [List.getElem?_set]
        have : ¬ p.si = q.si := fun h' => hs h'.symm
        simp [this]
    · cases h

theorem setSegAt_ok (w : Word) (p : SegPos) (s x : Seg) (site : String) (h : w.segAt p = some x) : ∃ w1, setSegAt w p s site = .ok w1 := by
  unfold Word.segAt Word.getSegAt at h
  unfold setSegAt getSyll
  cases hσ : w.sylls[p.si]? with
  | none => simp [hσ] at h
  | some σ =>
    simp only [hσ] at h
    have hlt : p.gi < σ.segs.length := by
      rcases List.getElem?_eq_some_iff.mp h with ⟨h1, _⟩; exact h1
    simp only [bind, Outcome.bind, hlt, if_true, pure]
    exact ⟨_, rfl⟩

/-- one swap of two distinct in-bounds positions -/
theorem metathPair_swap (w : Word) (p q : SegPos) (a b : Option Nat) (sp sq : Seg) (hp : w.segAt p = some sp) (hq : w.segAt q = some sq)
    (hne : p ≠ q) :
    ∃ w', metathPair w (.segment p a) (.segment q b) = .ok w' ∧ w'.segAt p = some sq ∧ w'.segAt q = some sp ∧
      ∀ r, r ≠ p → r ≠ q → w'.segAt r = w.segAt r := by
  obtain ⟨w1, h1⟩ := setSegAt_ok w p sq sp "metathesis: segments[li.seg_index] = sr" hp
  have hq1 : w1.segAt q = some sq := by rw [segAt_setSegAt_other w w1 p q sq _ h1 (Ne.symm hne)]; exact hq
  obtain ⟨w2, h2⟩ := setSegAt_ok w1 q sp sq "metathesis: segments[ri.seg_index] = tmp" hq1
  refine ⟨w2, ?_, ?_, ?_, ?_⟩
  · simp only [metathPair, hp, hq, h1, bind, Outcome.bind, h2]
  · rw [segAt_setSegAt_other w1 w2 q p sp _ h2 hne]; exact segAt_setSegAt_same w w1 p sq _ h1
  · exact segAt_setSegAt_same w1 w2 q sp _ h2
  · intro r hrp hrq
    rw [segAt_setSegAt_other w1 w2 q r sp _ h2 hrq, segAt_setSegAt_other w w1 p r sq _ h1 hrp]

/-- the captured elements: segments at the positions `ps` -/
def capsOf (ps : List SegPos) (sets : List (Option Nat)) : List MatchEl :=
  List.zipWith (fun p s => MatchEl.segment p s) ps sets

theorem capsOf_get (ps : List SegPos) (sets : List (Option Nat)) (hl : sets.length = ps.length) (i : Nat) (hi : i < ps.length) :
    ∃ s, (capsOf ps sets)[i]? = some (.segment ps[i] s) := by
  have hi2 : i < sets.length := by omega
  refine ⟨sets[i], ?_⟩
  simp [capsOf, List.getElem?_zipWith, List.getElem?_eq_getElem hi, List.getElem?_eq_getElem hi2]

/-- the state of the word after the first `z` swaps -/
structure Swapped (w0 w : Word) (ps : List SegPos) (z : Nat) : Prop where
  outer_l : ∀ i, i < z → (hi : i < ps.length) → w.segAt ps[i] = w0.segAt (ps[ps.length - 1 - i]'(by omega))
  outer_r : ∀ i, i < z → (hi : i < ps.length) → w.segAt (ps[ps.length - 1 - i]'(by omega)) = w0.segAt ps[i]
  inner : ∀ i, z ≤ i → i + z < ps.length → (hi : i < ps.length) → w.segAt ps[i] = w0.segAt ps[i]
  rest : ∀ r, r ∉ ps → w.segAt r = w0.segAt r

theorem go_reverses (w0 : Word) (ps : List SegPos) (sets : List (Option Nat)) (hl : sets.length = ps.length) (hnd : ps.Nodup)
    (hin : ∀ p ∈ ps, ∃ s, w0.segAt p = some s) :
    ∀ (k z : Nat) (w : Word), z + k = ps.length / 2 → Swapped w0 w ps z →
      ∃ w', metathesis.go (capsOf ps sets) (capsOf ps sets).length k z w = .ok w' ∧ Swapped w0 w' ps (ps.length / 2) := by
  have hcl : (capsOf ps sets).length = ps.length := by simp [capsOf, hl]
  intro k
  induction k with
  | zero =>
    intro z w hz hs
    have : z = ps.length / 2 := by omega
    subst this
    exact ⟨w, by simp [metathesis.go], hs⟩
  | succ k ih =>
    intro z w hz hs
    have hzlt : z < ps.length / 2 := by omega
    have hz1 : z < ps.length := by omega
    have hz2 : ps.length - 1 - z < ps.length := by omega
    obtain ⟨sa, ha⟩ := capsOf_get ps sets hl z hz1
    obtain ⟨sb, hb⟩ := capsOf_get ps sets hl (ps.length - 1 - z) hz2
    have hne : ps[z] ≠ ps[ps.length - 1 - z] := by
      intro heq
      have := (List.getElem_inj hnd).mp heq
      omega
    obtain ⟨sp, hsp0⟩ := hin ps[z] (List.getElem_mem hz1)
    obtain ⟨sq, hsq0⟩ := hin (ps[ps.length - 1 - z]) (List.getElem_mem hz2)
    have hsp : w.segAt ps[z] = some sp := by rw [hs.inner z (Nat.le_refl _) (by omega) hz1]; exact hsp0
    have hsq : w.segAt (ps[ps.length - 1 - z]) = some sq := by
      rw [hs.inner (ps.length - 1 - z) (by omega) (by omega) hz2]; exact hsq0
    obtain ⟨w1, hw1, g1, g2, g3⟩ := metathPair_swap w ps[z] (ps[ps.length - 1 - z]) sa sb sp sq hsp hsq hne
    have hstep : metathesis.go (capsOf ps sets) (capsOf ps sets).length (k + 1) z w =
        metathesis.go (capsOf ps sets) (capsOf ps sets).length k (z + 1) w1 := by
      rw [metathesis.go, hcl, ha, hb]
      simp only [hw1, bind, Outcome.bind]
    rw [hstep]
    refine ih (z + 1) w1 (by omega) ⟨?_, ?_, ?_, ?_⟩
    · intro i hi hil
      rcases Nat.lt_or_eq_of_le (Nat.le_of_lt_succ hi) with hlt | heq
      · have hne1 : ps[i] ≠ ps[z] := by
          intro h; have := (List.getElem_inj hnd).mp h; omega
        have hne2 : ps[i] ≠ ps[ps.length - 1 - z] := by
          intro h; have := (List.getElem_inj hnd).mp h; omega
        rw [g3 _ hne1 hne2]; exact hs.outer_l i hlt hil
      · subst heq; rw [g1, ← hsq0]
    · intro i hi hil
      have hil2 : ps.length - 1 - i < ps.length := by omega
      rcases Nat.lt_or_eq_of_le (Nat.le_of_lt_succ hi) with hlt | heq
      · have hne1 : ps[ps.length - 1 - i] ≠ ps[z] := by
          intro h; have := (List.getElem_inj hnd).mp h; omega
        have hne2 : ps[ps.length - 1 - i] ≠ ps[ps.length - 1 - z] := by
          intro h; have := (List.getElem_inj hnd).mp h; omega
        rw [g3 _ hne1 hne2]; exact hs.outer_r i hlt hil
      · subst heq; rw [g2, ← hsp0]
    · intro i hzi hiz hil
      have hne1 : ps[i] ≠ ps[z] := by
        intro h; have := (List.getElem_inj hnd).mp h; omega
      have hne2 : ps[i] ≠ ps[ps.length - 1 - z] := by
        intro h; have := (List.getElem_inj hnd).mp h; omega
      rw [g3 _ hne1 hne2]; exact hs.inner i (by omega) (by omega) hil
    · intro r hr
      have hne1 : r ≠ ps[z] := fun h => hr (h ▸ List.getElem_mem hz1)
      have hne2 : r ≠ ps[ps.length - 1 - z] := fun h => hr (h ▸ List.getElem_mem hz2)
      rw [g3 r hne1 hne2]; exact hs.rest r hr

/-- **`&` reverses the captured segments**, however many there are -/
theorem metathesis_reverses (w : Word) (ps : List SegPos) (sets : List (Option Nat)) (hl : sets.length = ps.length) (hnd : ps.Nodup)
    (hin : ∀ p ∈ ps, ∃ s, w.segAt p = some s) :
    ∃ w', metathesis (capsOf ps sets) w = .ok w' ∧
      (∀ i, (hi : i < ps.length) → w'.segAt ps[i] = w.segAt (ps[ps.length - 1 - i]'(by omega))) ∧
      (∀ r, r ∉ ps → w'.segAt r = w.segAt r) := by
  have hcl : (capsOf ps sets).length = ps.length := by simp [capsOf, hl]
  obtain ⟨w', hgo, hs⟩ := go_reverses w ps sets hl hnd hin (ps.length / 2) 0 w (by omega)
    ⟨fun i hi _ => by omega, fun i hi _ => by omega, fun i _ _ _ => rfl, fun r _ => rfl⟩
  refine ⟨w', ?_, ?_, hs.rest⟩
  · unfold metathesis; rw [hcl] at hgo ⊢; exact hgo
  · intro i hi
    by_cases h1 : i < ps.length / 2
    · exact hs.outer_l i h1 hi
    · by_cases h2 : ps.length - 1 - i < ps.length / 2
      · have := hs.outer_r (ps.length - 1 - i) h2 (by omega)
        have he : ps.length - 1 - (ps.length - 1 - i) = i := by omega
        simp only [he] at this
        exact this
      · -- the middle element of an odd number of captures
        have hmid : ps.length - 1 - i = i := by omega
        have := hs.inner i (by omega) (by omega) hi
        simp only [hmid]; exact this

/-! Non-vacuity: four captured segments with equal ends (`C V V C > &` on `ta.it`, the input of the seeded change
    `C12-metathesis-break-on-equal-ends`) -/
example :
    let t : Seg := ⟨4#8, 0#8, 0#8, some 0x4200#16⟩
    let a : Seg := ⟨3#8, 192#8, 4#8, some 0xA010#16⟩
    let i : Seg := ⟨3#8, 192#8, 4#8, some 0x9010#16⟩
    let w : Word := { sylls := [{ segs := [t, a] }, { segs := [i, t] }] }
    (match metathesis (capsOf [⟨0, 0⟩, ⟨0, 1⟩, ⟨1, 0⟩, ⟨1, 1⟩] [none, none, none, none]) w with
     | .ok w' => w'.sylls.map (·.segs) | _ => []) = [[t, i], [a, t]] := by decide

end Asca.C12Meta
