import AscaVerif.Model.Interp.Apply
/-! # C14 — segmental and suprasegmental changes do not leak into each other

Component-level theorems over the port of `syll.rs`:
* a matrix **without** length/stress/tone applied to a segment (any run length, any position) never changes the
  syllable's stress or tone nor the number of segments (so boundaries stay where they are);
* `apply_syll_mods` (what `%`/syllable outputs and segment matrices use for stress/tone) never touches a segment.
The end-to-end statements over whole rules with arbitrary environments are decided by `c14-spec` and the
model≙impl correspondence. -/
namespace Asca.C14
open Asca Asca.Syll

/-- the segment loop of `Syllable::apply_seg_mods` keeps the number of segments -/
theorem applyModsRun_length (nodes feats : List (Option ModKind)) :
    ∀ (n pos : Nat) (segs : List Seg) (al : Alphas) (segs' : List Seg) (al' : Alphas),
      applyModsRun nodes feats n pos segs al = .ok (segs', al') → segs'.length = segs.length := by
  intro n
  induction n with
  | zero => intro pos segs al segs' al' h; simp [applyModsRun] at h; rw [← h.1]
  | succ n ih =>
    intro pos segs al segs' al' h
    unfold applyModsRun at h
    cases hs : segs[pos]? with
    | none => simp [hs] at h
    | some s =>
      simp only [hs] at h
      cases ha : s.applySegMods al nodes feats false with
      | ok r =>
        obtain ⟨s', al1⟩ := r
        simp only [ha] at h
        have := ih (pos + 1) (segs.set pos s') al1 segs' al' h
        simpa using this
      | err e => simp [ha] at h
      | panic e => simp [ha] at h
      | outOfFuel e => simp [ha] at h

/-- outside the run the segments are not touched at all -/
theorem applyModsRun_frame (nodes feats : List (Option ModKind)) :
    ∀ (n pos : Nat) (segs : List Seg) (al : Alphas) (segs' : List Seg) (al' : Alphas),
      applyModsRun nodes feats n pos segs al = .ok (segs', al') → ∀ i, (i < pos ∨ pos + n ≤ i) → segs'[i]? = segs[i]? := by
  intro n
  induction n with
  | zero => intro pos segs al segs' al' h i _; simp [applyModsRun] at h; rw [← h.1]
  | succ n ih =>
    intro pos segs al segs' al' h i hi
    unfold applyModsRun at h
    cases hs : segs[pos]? with
    | none => simp [hs] at h
    | some s =>
      simp only [hs] at h
      cases ha : s.applySegMods al nodes feats false with
      | ok r =>
        obtain ⟨s', al1⟩ := r
        simp only [ha] at h
        have := ih (pos + 1) (segs.set pos s') al1 segs' al' h i (by omega)
        rw [this, List.getElem?_set]
        have : pos ≠ i := by omega
        simp [this]
      | err e => simp [ha] at h
      | panic e => simp [ha] at h
      | outOfFuel e => simp [ha] at h

/-- **segmental matrix ⇒ prosody untouched**: a matrix that names no length, stress or tone, applied to a segment of
    any syllable, leaves the syllable's stress, tone and segment count as they were and reports no length change. -/
theorem applySegMods_noSupra (σ σ' : Syll) (al al' : Alphas) (mods : Modifiers) (pos : Nat) (lc : Int)
    (hs : mods.suprs = {}) (h : σ.applySegMods al mods pos = .ok (σ', al', lc)) :
    σ'.stress = σ.stress ∧ σ'.tone = σ.tone ∧ σ'.segs.length = σ.segs.length ∧ lc = 0 := by
  unfold Syll.applySegMods at h
  cases hr : applyModsRun mods.nodes mods.feats (σ.segLengthAt pos) pos σ.segs al with
  | ok r =>
    obtain ⟨segs1, al1⟩ := r
    simp only [hr, Outcome.bind_ok] at h
    have hlen := applyModsRun_length _ _ _ _ _ _ _ _ hr
    simp only [hs, applySupras, applyLength, applySyllMods, newStress] at h
    cases hg : segs1[pos]? with
    | none => simp [hg] at h
    | some x =>
      simp [hg] at h
      obtain ⟨h1, h2, h3⟩ := h
      subst h1; subst h3
      simp [hlen]
  | err e => simp [hr] at h
  | panic e => simp [hr] at h
  | outOfFuel e => simp [hr] at h

/-- **prosodic modifier ⇒ segments untouched**: `apply_syll_mods` only ever changes stress and tone -/
theorem applySyllMods_keeps_segments (σ σ' : Syll) (al : Alphas) (mods : SupraSegs) (h : σ.applySyllMods al mods = .ok σ') :
    σ'.segs = σ.segs := by
  unfold applySyllMods at h
  cases hn : σ.newStress al mods with
  | ok st => simp [hn] at h; rw [← h]
  | err e => simp [hn] at h
  | panic e => simp [hn] at h
  | outOfFuel e => simp [hn] at h

/-- joining two syllables (`$ > *`) keeps every segment, in order -/
theorem join_keeps_segments (a c : Syll) :
    ({ segs := a.segs ++ c.segs, stress := Interp.mergeStress a.stress c.stress, tone := Interp.concatTone a.tone c.tone } : Syll).segs = a.segs ++ c.segs := rfl

/-- splitting a syllable (`* > $`) keeps every segment, in order -/
theorem split_keeps_segments (σ : Syll) (gi : Nat) : (Interp.splitAt σ gi).1 ++ (Interp.splitAt σ gi).2 = σ.segs := by
  simp [Interp.splitAt]

end Asca.C14
