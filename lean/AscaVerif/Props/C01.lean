import AscaVerif.Model.Render
import AscaVerif.Gen.SourceFacts
/-! # C01 — same input, same output

The library has one input that is not an argument: the order in which `CARDINALS_VEC` lists the graphemes, which
(before the fix recorded in known_findings.json) was the iteration order of a `HashMap`, different in every
process.  The model makes that order an explicit parameter `ord` of rendering; "for all process instances" is
"for all permutations `ord` of the grapheme table". -/
namespace Asca.C01
open Asca Asca.Render

/-- lexicographic order on code-point strings = Rust's `String` order (`Vec<String>::sort`) -/
def lexLe : Text → Text → Bool
  | [], _ => true
  | _ :: _, [] => false
  | a :: as, b :: bs => if a < b then true else if a = b then lexLe as bs else false

def keyLe (x y : Text × Seg) : Bool := lexLe x.1 y.1

/-- what the fixed initialiser does to whatever order the hash map yields: sort by key -/
def canon (ord : Table) : Table := ord.mergeSort keyLe

/-- the table as the current source builds it, from the hash order `ord` -/
def effective (ord : Table) : Table := if Gen.cardinalOrderSorted then canon ord else ord

/-- rendering as the current source computes it in a process whose hash order is `ord` -/
def renderCur (ord : Table) (w : Word) : Res Text := renderWord (effective ord) w

theorem lexLe_refl : ∀ a, lexLe a a = true
  | [] => rfl
  | a :: as => by simp [lexLe, lexLe_refl as]

theorem lexLe_total : ∀ a b, (lexLe a b || lexLe b a) = true
  | [], _ => by simp [lexLe]
  | _ :: _, [] => by simp [lexLe]
  | a :: as, b :: bs => by
    simp only [lexLe]
    rcases Nat.lt_trichotomy a b with h | h | h
    · simp [h]
    · subst h; simp [lexLe_total as bs]
    · have : ¬ a < b := by omega
      have : ¬ a = b := by omega
      simp [*]

theorem lexLe_trans : ∀ a b c, lexLe a b = true → lexLe b c = true → lexLe a c = true
  | [], _, _, _, _ => by simp [lexLe]
  | _ :: _, [], _, h, _ => by simp [lexLe] at h
  | _ :: _, _ :: _, [], _, h => by simp [lexLe] at h
  | a :: as, b :: bs, c :: cs, h1, h2 => by
    simp only [lexLe] at *
    by_cases hab : a < b
    · by_cases hbc : b < c
      · have : a < c := by omega
        simp [this]
      · by_cases hbc' : b = c
        · subst hbc'; simp [hab]
        · simp [hbc, hbc'] at h2
    · by_cases hab' : a = b
      · subst hab'
        by_cases hbc : a < c
        · simp [hbc]
        · by_cases hbc' : a = c
          · subst hbc'
            simp [hab] at h1 h2 ⊢
            exact lexLe_trans as bs cs h1 h2
          · simp [hbc, hbc'] at h2
      · simp [hab, hab'] at h1

theorem lexLe_antisymm : ∀ a b, lexLe a b = true → lexLe b a = true → a = b
  | [], [], _, _ => rfl
  | [], _ :: _, _, h => by simp [lexLe] at h
  | _ :: _, [], h, _ => by simp [lexLe] at h
  | a :: as, b :: bs, h1, h2 => by
    simp only [lexLe] at h1 h2
    by_cases hab : a < b
    · have h3 : ¬ b < a := by omega
      have h4 : ¬ b = a := by omega
      simp [h3, h4] at h2
    · by_cases hab' : a = b
      · subst hab'
        simp at h1 h2
        rw [lexLe_antisymm as bs h1 h2]
      · simp [hab, hab'] at h1

/-- no two rows of the table have the same grapheme -/
def KeysDistinct (t : Table) : Prop := (t.map Prod.fst).Nodup

/-- **sorting erases the hash order**: any two orders of the same table (distinct keys) sort to the same list -/
theorem canon_perm (ord ord' : Table) (hp : ord.Perm ord') (hd : KeysDistinct ord) : canon ord = canon ord' := by
  unfold canon
  apply List.Perm.eq_of_pairwise (le := fun a b => keyLe a b = true)
  · intro a b ha hb hab hba
    have hk : a.1 = b.1 := lexLe_antisymm _ _ hab hba
    have ha' : a ∈ ord := (List.mergeSort_perm ord keyLe).subset ha
    have hb' : b ∈ ord := hp.symm.subset ((List.mergeSort_perm ord' keyLe).subset hb)
    -- two rows of a table with distinct keys that agree on the key are the same row
    have key : ∀ (t : Table), (t.map Prod.fst).Nodup → ∀ x ∈ t, ∀ y ∈ t, x.1 = y.1 → x = y := by
      intro t
      induction t with
      | nil => intro _ x hx; cases hx
      | cons r rs ih =>
        intro hnd x hx y hy hxy
        simp only [List.map_cons, List.nodup_cons] at hnd
        rcases List.mem_cons.mp hx with rfl | hx' <;> rcases List.mem_cons.mp hy with rfl | hy'
        · rfl
        · exact absurd (List.mem_map.mpr ⟨y, hy', hxy.symm⟩) hnd.1
        · exact absurd (List.mem_map.mpr ⟨x, hx', hxy⟩) hnd.1
        · exact ih hnd.2 x hx' y hy' hxy
    exact key ord hd a ha' b hb' hk
  · exact List.pairwise_mergeSort (fun a b c => lexLe_trans a.1 b.1 c.1) (fun a b => lexLe_total a.1 b.1) ord
  · exact List.pairwise_mergeSort (fun a b c => lexLe_trans a.1 b.1 c.1) (fun a b => lexLe_total a.1 b.1) ord'
  · exact (List.mergeSort_perm ord keyLe).trans (hp.trans (List.mergeSort_perm ord' keyLe).symm)

/-- the grapheme table read from the current `cardinals.json` has distinct keys -/
theorem cardinals_keys_distinct : KeysDistinct Gen.cardinals := by
  unfold KeysDistinct; decide +kernel

/-- the current source sorts `CARDINALS_VEC` (re-derived from `lib.rs` on every run by the translator) -/
theorem order_is_canonical : Gen.cardinalOrderSorted = true := by decide

/-- **C01, rendering**: in every process — whatever order its hash map yields — every word renders the same. -/
theorem render_order_irrelevant (ord : Table) (hp : ord.Perm Gen.cardinals) (w : Word) :
    renderCur ord w = renderCur Gen.cardinals w := by
  unfold renderCur effective
  rw [order_is_canonical]; simp only [if_true]
  have hd : KeysDistinct ord := by
    unfold KeysDistinct
    exact (hp.map Prod.fst).nodup_iff.mpr cardinals_keys_distinct
  rw [canon_perm ord Gen.cardinals hp hd]

/-- the sort is what makes this true: the table holds different graphemes with one and the same bundle, and the
    un-sorted renderer returns whichever comes first. -/
theorem shared_bundles_exist : ∃ k₁ k₂ s, k₁ ≠ k₂ ∧ (k₁, s) ∈ Gen.cardinals ∧ (k₂, s) ∈ Gen.cardinals := by
  refine ⟨[113, 448], [610, 448], ⟨4#8, 1#8, 4#8, some 25408#16⟩, by decide, ?_, ?_⟩ <;> decide +kernel

theorem unsorted_render_is_order_sensitive :
    ∃ (ord ord' : Table) (s : Seg), ord.Perm ord' ∧ segToText ord s ≠ segToText ord' s := by
  refine ⟨[([113, 448], ⟨4#8, 1#8, 4#8, some 25408#16⟩), ([610, 448], ⟨4#8, 1#8, 4#8, some 25408#16⟩)],
          [([610, 448], ⟨4#8, 1#8, 4#8, some 25408#16⟩), ([113, 448], ⟨4#8, 1#8, 4#8, some 25408#16⟩)],
          ⟨4#8, 1#8, 4#8, some 25408#16⟩, List.Perm.swap _ _ _, by decide⟩

/-! ## no other hidden input: hash-ordered iterations and globals of the library, re-read from the source -/

/-- the only places where the library iterates a hash-ordered container: building the (sorted) grapheme vector,
    filling the trie (insertion order does not matter: children are kept sorted), and copying a diacritic's
    key/value pairs into arrays indexed by key.  A new site makes this theorem fail. -/
theorem hash_iteration_sites_known : Gen.hashIterSites =
    ["src/lib.rs: CARDINALS_MAP.iter().for_each(|(k,_)| m.insert(k.as_str()));",
     "src/lib.rs: for (key, value) in s.iter() {",
     "src/lib.rs: let mut v: Vec<String> = CARDINALS_MAP.iter().map(|(k,_)| k.clone()).collect();"] := by decide

/-- the only globals: the four lazily initialised tables (no counters, caches, thread-locals) -/
theorem statics_known : Gen.statics =
    ["src/lib.rs: CARDINALS_MAP", "src/lib.rs: CARDINALS_TRIE", "src/lib.rs: CARDINALS_VEC", "src/lib.rs: DIACRITS",
     "src/lib.rs: lazy_static! {"] := by decide

/-! Non-vacuity -/
example : lexLe [113, 448] [610, 448] = true := by decide
example : lexLe [113] [113, 448] = true ∧ lexLe [610] [113, 448] = false := by decide

end Asca.C01
