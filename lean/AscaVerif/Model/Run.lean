import AscaVerif.Model.Basic
/-! Model of the runner, `lib.rs:185-337`, over *abstract* components: the parsers, the rule interpreter and
    the renderer are parameters (an `Env`), so every theorem about the runner holds for whatever those
    components do — in particular for the real interpreter, whatever its defects. -/
namespace Asca

/-- text is a list of characters (string literals do not reduce in the kernel) -/
abbrev Str := List Char

namespace Run

/-- the components the runner calls -/
structure Env (ε R W TI TF : Type) where
  /-- `parse_aliases(into, from)` -/
  parseAliases : List Str → List Str → Outcome ε (TI × TF)
  /-- `Word::new(normalise(w), alias_into)` -/
  parseWord : TI → Str → Outcome ε W
  /-- `Parser::new(Lexer::new(line, group, line_no).get_line()?, …).parse()?` — `none` for blank/comment lines -/
  parseRule : Nat → Nat → Str → Outcome ε (Option R)
  /-- `Rule::apply` -/
  apply : R → W → Outcome ε W
  /-- `Word::render(alias_from)` -/
  render : TF → W → Str
  /-- `Word`'s `PartialEq` (ignores the americanist flag) -/
  weq : W → W → Bool
  /-- `char::is_whitespace`, used by `trim_end` -/
  isWs : Char → Bool

variable {ε R W TI TF : Type} (env : Env ε R W TI TF)

/-- one rule group applied to one word: `for rule in rule_group { res_word = rule.apply(res_word)?; }` -/
def applyGroup (g : List R) (w : W) : Outcome ε W := g.foldlM (fun w r => env.apply r w) w

/-- all groups applied to one word (`lib.rs:191-196`) -/
def applyWord (G : List (List R)) (w : W) : Outcome ε W := G.foldlM (fun w g => applyGroup env g w) w

/-- `apply_rule_groups` (`lib.rs:185-203`): phrases outer, words, groups, rules inner; first error wins -/
def applyRuleGroups (G : List (List R)) (phrases : List (List W)) : Outcome ε (List (List W)) :=
  phrases.mapM (fun ph => ph.mapM (applyWord env G))

/-- phrase equality as `Phrase`'s derived `PartialEq` computes it -/
def phraseEq : List W → List W → Bool
  | [], [] => true
  | a :: as, b :: bs => env.weq a b && phraseEq as bs
  | _, _ => false

/-- `apply_rules_trace` (`lib.rs:212-229`): groups outer, words inner; a change is recorded when the phrase
    after the group differs from the phrase before it. -/
def traceGo : Nat → List (List R) → List W → List (Nat × List W) → Outcome ε (List (Nat × List W))
  | _, [], _, acc => .ok acc.reverse
  | i, g :: gs, ph, acc =>
    match ph.mapM (applyGroup env g) with
    | .ok ph' => traceGo (i + 1) gs ph' (if phraseEq env ph' ph then acc else (i, ph') :: acc)
    | .err e => .err e
    | .panic s => .panic s
    | .outOfFuel s => .outOfFuel s

def applyRulesTrace (G : List (List R)) (ph : List W) : Outcome ε (List (Nat × List W)) :=
  traceGo env 0 G ph []

/-- `str::split(' ')`: always at least one piece -/
def splitSp : Str → List Str
  | [] => [[]]
  | c :: cs =>
    if c = ' ' then [] :: splitSp cs
    else match splitSp cs with
      | [] => [[c]]          -- unreachable: `splitSp` never returns `[]`
      | p :: ps => (c :: p) :: ps

/-- `str::trim_end` -/
def trimEnd (isWs : Char → Bool) (s : Str) : Str := (s.reverse.dropWhile isWs).reverse

/-- `parse_phrases` (`lib.rs:265-271`) -/
def parsePhrases (ti : TI) (phrases : List Str) : Outcome ε (List (List W)) :=
  phrases.mapM (fun ph => (splitSp ph).mapM (env.parseWord ti))

/-- rules of one group: `for (ri, r) in rg.rule.iter().enumerate()` -/
def parseGroupGo (rgi : Nat) : Nat → List Str → List R → Outcome ε (List R)
  | _, [], acc => .ok acc.reverse
  | ri, r :: rs, acc =>
    match env.parseRule rgi ri r with
    | .ok (some x) => parseGroupGo rgi (ri + 1) rs (x :: acc)
    | .ok none => parseGroupGo rgi (ri + 1) rs acc
    | .err e => .err e
    | .panic s => .panic s
    | .outOfFuel s => .outOfFuel s

/-- `parse_rule_groups` (`lib.rs:273-287`) -/
def parseRuleGroupsGo : Nat → List (List Str) → List (List R) → Outcome ε (List (List R))
  | _, [], acc => .ok acc.reverse
  | rgi, g :: gs, acc =>
    match parseGroupGo env rgi 0 g [] with
    | .ok rg => parseRuleGroupsGo (rgi + 1) gs (rg :: acc)
    | .err e => .err e
    | .panic s => .panic s
    | .outOfFuel s => .outOfFuel s

def parseRuleGroups (groups : List (List Str)) : Outcome ε (List (List R)) := parseRuleGroupsGo env 0 groups []

/-- one output line of `phrases_to_string` (`lib.rs:232-238`) -/
def phraseToString (tf : TF) (ph : List W) : Str :=
  trimEnd env.isWs (ph.foldl (fun acc w => acc ++ env.render tf w ++ [' ']) [])

/-- `run` (`lib.rs:310-318`): aliases, then words, then rules, then application, then rendering. -/
def run (groups : List (List Str)) (phrases : List Str) (into frm : List Str) : Outcome ε (List Str) := do
  let (ti, tf) ← env.parseAliases into frm
  let ps ← parsePhrases env ti phrases
  let rs ← parseRuleGroups env groups
  let res ← applyRuleGroups env rs ps
  pure (res.map (phraseToString env tf))

/-- `trace_changes` (`lib.rs:330-337`) -/
def traceChanges (groups : List (List Str)) (phrase : Str) (into : List Str) : Outcome ε (List (Nat × List W)) := do
  let (ti, _) ← env.parseAliases into []
  let ph ← (splitSp phrase).mapM (env.parseWord ti)
  let rs ← parseRuleGroups env groups
  applyRulesTrace env rs ph

end Run
end Asca
