import AscaVerif.Model.CliFiles
/-! `seq` projects (`src/cli/config/parser.rs:150-196, 320-365`, `src/cli/seq.rs:71-187, 273-300`): filters, the
    validation of `%` references, and how a tag's words are computed from its parent's.  The library (`asca::run`),
    the rule files and the word files are parameters. -/
namespace Asca
namespace Cfg
open Cli

inductive Filter where
  | none
  | without (names : List Text)   -- `! {..}`
  | only (names : List Text)      -- `~ {..}`
  deriving Repr, DecidableEq

structure Entry where
  file : Nat
  filter : Filter
  deriving Repr

structure Seq where
  tag : Text
  frm : Option Text := none
  /-- `$alias` given on this tag -/
  alias : Bool := false
  words : List Nat := []
  entries : List Entry := []
  deriving Repr

/-- `~ {..}`: for every name of the filter, in the filter's order, the first group of the file with that name -/
def onlyGo (lower : Text → Text) (names : List Text) : List Text → Except String (List Nat)
  | [] => .ok []
  | n :: ns =>
    match names.findIdx? (fun x => lower x == lower n), onlyGo lower names ns with
    | some i, .ok is => .ok (i :: is)
    | _, _ => .error "could not find rule"

/-- `parse_entry` (parser.rs:150-196): the groups an entry selects, as positions in the rule file, or an error when a
    named group is missing (for `!`: when nothing at all was removed).  `lower` is `str::to_lowercase`. -/
def select (lower : Text → Text) (names : List Text) : Filter → Except String (List Nat)
  | .none => .ok (List.range names.length)
  | .without ns =>
    let low := ns.map lower
    let keep := (List.range names.length).filter fun i => !(low.contains (lower (names.getD i [])))
    if keep.length = names.length then .error "could not find rule" else .ok keep
  | .only ns => onlyGo lower names ns

def findSeq (conf : List Seq) (t : Text) : Option Seq := conf.find? (·.tag = t)

/-- `detect_tag_loop` (parser.rs:352-365); `none` = the `unwrap` on a missing tag, or out of fuel -/
def detectLoopGo (conf : List Seq) : Nat → List Text → Seq → Option Bool
  | 0, _, _ => none
  | fuel + 1, visited, head =>
    match head.frm with
    | none => some false
    | some f =>
      if visited.contains f then some true
      else match findSeq conf f with
        | some nxt => detectLoopGo conf fuel (f :: visited) nxt
        | none => none

def detectLoop (conf : List Seq) (head : Seq) : Option Bool := detectLoopGo conf (conf.length + 1) [] head

/-- the validation at the end of `Parser::parse` (parser.rs:320-349): tags unique, every `%` target declared, no loop -/
def validate (conf : List Seq) : Bool :=
  (conf.map (·.tag)).Nodup &&
  conf.all (fun c => match c.frm with | some f => (findSeq conf f).isSome | none => true) &&
  conf.all (fun c => match c.frm with | some _ => detectLoop conf c == some false | none => true)

/-- the sequences from the root of the pipeline down to `s` (root first) -/
def chainGo (conf : List Seq) : Nat → Seq → Option (List Seq)
  | 0, _ => none
  | fuel + 1, s =>
    match s.frm with
    | none => some [s]
    | some f =>
      match findSeq conf f with
      | some p => (chainGo conf fuel p).map (· ++ [s])
      | none => none

/-- the world outside the config: rule files, word files, and the library -/
structure World where
  groups : Nat → List Group
  words : Nat → List Text
  lower : Text → Text
  /-- `asca::run(rules, words, into, from)` for the alias set of a tag (`true` = the project's alias file) -/
  run : Bool → List Group → List Text → Option (List Text)

def selectGroups (W : World) (e : Entry) : Option (List Group) :=
  match select W.lower ((W.groups e.file).map (·.name)) e.filter with
  | .ok idx => some (idx.filterMap fun i => (W.groups e.file)[i]?)
  | .error _ => none

/-- `get_words` without `-w` (seq.rs:140-187): the parent's result, then the tag's own word files, an empty line between
    blocks -/
def appendWordFiles (W : World) (start : List Text) (files : List Nat) : List Text :=
  files.foldl (fun acc f => (if acc.isEmpty then acc else acc ++ [[]]) ++ W.words f) start

/-- `run_sequence` (seq.rs:273-300): the entries applied in the listed order, each to the result of the one before -/
def runEntries (W : World) (alias : Bool) (es : List Entry) (ws : List Text) : Option (List Text) :=
  es.foldlM (fun cur e => (selectGroups W e).bind fun gs => W.run alias gs cur) ws

/-- the words a tag ends with, computed without any cache -/
def finalWords (W : World) (conf : List Seq) : Nat → Seq → Option (List Text)
  | 0, _ => none
  | fuel + 1, s =>
    let start : Option (List Text) := match s.frm with
      | none => some []
      | some f => (findSeq conf f).bind (finalWords W conf fuel)
    start.bind fun st => runEntries W s.alias s.entries (appendWordFiles W st s.words)

/-- the same with the cache of `seq.rs`: tag ↦ final words; a hit is used as is, a miss is computed and stored under
    the parent's tag (`get_words`), and `handle_sequence` stores the tag's own result -/
abbrev Cache := List (Text × List Text)

def cacheGet (c : Cache) (t : Text) : Option (List Text) := (c.find? (·.1 = t)).map (·.2)

def finalWordsCached (W : World) (conf : List Seq) : Nat → Seq → Cache → Option (List Text × Cache)
  | 0, _, _ => none
  | fuel + 1, s, cache =>
    let start : Option (List Text × Cache) := match s.frm with
      | none => some ([], cache)
      | some f =>
        match cacheGet cache f with
        | some ws => some (ws, cache)
        | none =>
          (findSeq conf f).bind fun p =>
            (finalWordsCached W conf fuel p cache).map fun (ws, c') => (ws, (p.tag, ws) :: c')
    start.bind fun (st, c) => (runEntries W s.alias s.entries (appendWordFiles W st s.words)).map fun r => (r, c)

/-- `seq` over all tags in the listed order (seq.rs:318-323) -/
def runAll (W : World) (conf : List Seq) : List Seq → Cache → Option (List (Text × List Text) × Cache)
  | [], c => some ([], c)
  | s :: rest, c =>
    (finalWordsCached W conf (conf.length + 1) s c).bind fun (r, c') =>
      (runAll W conf rest ((s.tag, r) :: c')).map fun (out, c'') => ((s.tag, r) :: out, c'')

/-- `get_all_rules` (seq.rs:71-92): the rule history of a tag -/
def history (W : World) (conf : List Seq) (fuel : Nat) (s : Seq) : Option (List Group) :=
  (chainGo conf fuel s).bind fun ch => (ch.flatMap (·.entries)).foldlM (fun acc e => (selectGroups W e).map (acc ++ ·)) []

end Cfg
end Asca
