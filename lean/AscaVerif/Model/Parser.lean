import AscaVerif.Model.Lexer
import AscaVerif.Model.Ast
import AscaVerif.Gen.Groups
/-! The rule parser (`parser.rs:242-1124`): `Parser::parse` and everything it calls, function by function, over the
    token list the lexer model produces.  Items keep their positions (they are what the error messages underline).
    Indexing the token list out of range, `unwrap`/`expect` on a failed number parse and `unreachable!()` are `panic`
    VALUES with the site; every loop takes fuel (`outOfFuel` = the loop did not end).  An error is the variant name of
    `RuleSyntaxError` with the span(s) `format_rule_error` (error/syntax.rs:207-310) underlines. -/
namespace Asca
namespace Parse
open Lex (Token TK)

structure Pos where
  start : Nat
  stop : Nat
  deriving DecidableEq, Repr, Inhabited

/-- a `RuleSyntaxError` of the parser: variant name and the underlined spans (one, or two for the diacritic errors) -/
structure PErr where
  name : String
  spans : List (Nat × Nat)
  deriving DecidableEq, Repr, Inhabited

abbrev PRes := Outcome PErr

mutual
/-- `parser.rs: enum ParseElement` -/
inductive PKind where
  | emptySet | wordBound | syllBound | ellipsis | metathesis
  | set (items : List PItem)
  | ipa (s : Seg) (mods : Option Modifiers)
  | matrix (mods : Modifiers) (var : Option Nat)
  | syllable (stress sec : Option ModKind) (tone : Option Nat) (var : Option Nat)
  | struct (items : List PItem) (stress sec : Option ModKind) (tone : Option Nat) (var : Option Nat)
  | optional (items : List PItem) (min max : Nat)
  | environment (envs : List PEnv)
  | variable (tok : Token) (mods : Option Modifiers)
/-- `parser.rs: struct Item` -/
inductive PItem where
  | mk (kind : PKind) (pos : Pos)
/-- `rule.rs: struct Env` (as built by the parser) -/
inductive PEnv where
  | mk (before after : List PItem) (pos : Pos)
end

instance : Inhabited PKind := ⟨.emptySet⟩
instance : Inhabited PItem := ⟨.mk .emptySet ⟨0, 0⟩⟩

def PItem.kind : PItem → PKind | .mk k _ => k
def PItem.pos : PItem → Pos | .mk _ p => p

def PKind.isWordBound : PKind → Bool | .wordBound => true | _ => false
def PKind.asMatrix : PKind → Option Modifiers | .matrix m _ => some m | _ => none

/-- `Rule` as `Parser::rule` builds it -/
structure PRule where
  input : List (List PItem)
  output : List (List PItem)
  context : List PItem
  except : List PItem
  deriving Inhabited

/-- `struct Parser` without the (constant) group and line numbers -/
structure PS where
  toks : List Token
  pos : Nat
  cur : Token
  deriving Inhabited

def tokPos (t : Token) : Pos := ⟨t.start, t.stop⟩
/-- an error that carries a token underlines the token -/
def tokErr (name : String) (t : Token) : PErr := ⟨name, [(t.start, t.stop)]⟩
def posErr (name : String) (p : Pos) : PErr := ⟨name, [(p.start, p.stop)]⟩
/-- the single-column variants -/
def colErr (name : String) (c : Nat) : PErr := ⟨name, [(c, c + 1)]⟩

def isDiacritic : TK → Bool | .diacritic _ => true | _ => false
def isFeature : TK → Bool | .feature _ _ => true | _ => false

/-- `advance` (parser.rs:254-261): past the end, or after a comment, the current token is a synthetic `Eol` whose
    "position" is the TOKEN index -/
def PS.advance (s : PS) : PS :=
  let pos := s.pos + 1
  { s with pos := pos,
           cur := if pos < s.toks.length && s.cur.kind != .comment then s.toks.getD pos default
                  else ⟨.eol, [], pos, pos + 1⟩ }

def PS.hasMore (s : PS) : Bool := s.pos < s.toks.length
def PS.peek (s : PS) (k : TK) : Bool := s.cur.kind == k
/-- `expect` -/
def PS.expect (s : PS) (k : TK) : Bool × PS := if s.cur.kind = k then (true, s.advance) else (false, s)
def PS.eat (s : PS) : Token × PS := (s.cur, s.advance)
def PS.eatExpect (s : PS) (k : TK) : Option (Token × PS) := if s.cur.kind = k then some (s.cur, s.advance) else none
/-- `self.token_list[self.pos-1]` (`pos = 0` underflows and indexes out of range) -/
def PS.prev (s : PS) : PRes Token :=
  if s.pos = 0 then .panic "token_list[self.pos-1]"
  else match s.toks[s.pos - 1]? with
    | some t => .ok t
    | none => .panic "token_list[self.pos-1]"
/-- `self.token_list[self.pos]` -/
def PS.here (s : PS) : PRes Token :=
  match s.toks[s.pos]? with
  | some t => .ok t
  | none => .panic "token_list[self.pos]"

/-- `value.parse::<usize>().unwrap()`: the digits as a number, a panic above `usize::MAX` -/
def parseUsize (site : String) (digits : Text) : PRes Nat :=
  let n := ParseWord.digitsToNat digits
  if digits.isEmpty then .panic site
  else if n < 2 ^ 64 then .ok n else .panic site

abbrev It := PItem × PS

/-- `get_bound` / `get_word_bound` / `get_syll_bound` -/
def getSyllBound (s : PS) : Option It :=
  match s.eatExpect .syllBoundary with
  | some (t, s') => some (.mk .syllBound (tokPos t), s')
  | none => none
def getWordBound (s : PS) : Option It :=
  match s.eatExpect .wordBoundary with
  | some (t, s') => some (.mk .wordBound (tokPos t), s')
  | none => none
def getBound (s : PS) : Option It :=
  match getSyllBound s with
  | some r => some r
  | none => getWordBound s

/-! ### matrices -/

def setAt {α} (l : List α) (i : Nat) (v : α) : List α := l.set i v

/-- the alpha letters `curr_token_to_modifier` accepts: Greek lower case `α..ω`, ASCII capitals -/
def isAlphaLetter (c : Nat) : Bool := Lex.isGreek c || Lex.isUpper c

inductive Mods where
  | bin (b : BinMod) | alpha (a : AlphaMod) | number (n : Nat)

/-- the last arms of `curr_token_to_modifier`: a tone's digits (zeros dropped, at most four), anything else is `unreachable!()` -/
def toneValue (t : Token) (kind variant : String) : PRes Mods :=
  if kind = "Supr" && variant = "Tone" then
    if (t.value.filter (· ≠ 48)).length > 4 then .err (tokErr "ToneTooBig" t)
    else .ok (.number (ParseWord.digitsToNat (t.value.filter (· ≠ 48))))
  else .panic "curr_token_to_modifier: unreachable!()"

/-- `curr_token_to_modifier` (parser.rs:550-579) on a token known to be a feature: `+`, `-`, one alpha letter, `-` and an
    alpha letter; anything else is a tone's digits (or `unreachable!()`) -/
def tokenToModifier (t : Token) (kind variant : String) : PRes Mods :=
  if t.value = [43] then .ok (.bin .pos)
  else if t.value = [45] then .ok (.bin .neg)
  else if t.value.length = 1 && isAlphaLetter (t.value.headD 0) then .ok (.alpha (.alpha (t.value.headD 0)))
  else if t.value.length = 2 && t.value.headD 0 = 45 && isAlphaLetter (t.value.getD 1 0) then .ok (.alpha (.inv (t.value.getD 1 0)))
  else toneValue t kind variant

def nodeIndex (variant : String) : Option Nat :=
  match variant with
  | "Root" => some 0 | "Manner" => some 1 | "Laryngeal" => some 2 | "Place" => some 3
  | "Labial" => some 4 | "Coronal" => some 5 | "Dorsal" => some 6 | "Pharyngeal" => some 7
  | _ => none

def featIndex (variant : String) : Option Nat := (Gen.featTable.find? (·.1 = variant)).map (·.2.1)

/-- one `ARG` of a matrix put into `args` (the `match ft` of `get_param_args`) -/
def putArg (args : Modifiers) (kind variant : String) (mk : Mods) : PRes Modifiers :=
  if kind = "Node" then
    match nodeIndex variant, mk with
    | some i, .bin b => .ok { args with nodes := setAt args.nodes i (some (.bin b)) }
    | some i, .alpha a => .ok { args with nodes := setAt args.nodes i (some (.alpha a)) }
    | _, _ => .panic "get_param_args: unreachable!()"
  else if kind = "Feat" then
    match featIndex variant, mk with
    | some i, .bin b => .ok { args with feats := setAt args.feats i (some (.bin b)) }
    | some i, .alpha a => .ok { args with feats := setAt args.feats i (some (.alpha a)) }
    | _, _ => .panic "get_param_args: unreachable!()"
  else
    match mk with
    | .number n => .ok { args with suprs := { args.suprs with tone := some n } }
    | .alpha a =>
      (match variant with
       | "Long" => .ok { args with suprs := { args.suprs with long := some (.alpha a) } }
       | "Overlong" => .ok { args with suprs := { args.suprs with overlong := some (.alpha a) } }
       | "Stress" => .ok { args with suprs := { args.suprs with stress := some (.alpha a) } }
       | "SecStress" => .ok { args with suprs := { args.suprs with secStress := some (.alpha a) } }
       | _ => .panic "get_param_args: unreachable!(Tone cannot be Alpha'd)")
    | .bin b =>
      (match variant with
       | "Long" => .ok { args with suprs := { args.suprs with long := some (.bin b) } }
       | "Overlong" => .ok { args with suprs := { args.suprs with overlong := some (.bin b) } }
       | "Stress" => .ok { args with suprs := { args.suprs with stress := some (.bin b) } }
       | "SecStress" => .ok { args with suprs := { args.suprs with secStress := some (.bin b) } }
       | _ => .panic "get_param_args: unreachable!(Tone cannot be +/-)")

/-- `get_param_args` (parser.rs:581-635) -/
def getParamArgs (isSyll : Bool) : Nat → PS → Modifiers → PRes (Modifiers × PS)
  | 0, _, _ => .outOfFuel "get_param_args"
  | fuel + 1, s, args =>
    if !s.hasMore then .ok (args, s)
    else if s.cur.kind = .rightSquare then .ok (args, s.advance)
    else if s.cur.kind = .comma then getParamArgs isSyll fuel s.advance args
    else
      match s.cur.kind with
      | .feature kind variant =>
        match tokenToModifier s.cur kind variant with
        | .ok mk =>
          if !(kind = "Supr" && (variant = "Tone" || variant = "Stress" || variant = "SecStress")) && isSyll then
            .err (tokErr "BadSyllableMatrix" s.cur)
          else
            match putArg args kind variant mk with
            | .ok args' => getParamArgs isSyll fuel s.advance args'
            | .err e => .err e | .panic p => .panic p | .outOfFuel p => .outOfFuel p
        | .err e => .err e | .panic p => .panic p | .outOfFuel p => .outOfFuel p
      | .eol => .err (tokErr "UnexpectedEol" s.cur)
      | _ => .err (tokErr "ExpectedTokenFeature" s.cur)

/-- `get_params` (parser.rs:637-644): called with the `[` just consumed -/
def getParams (s : PS) : PRes It := do
  let open_ ← s.prev
  let (args, s') ← getParamArgs false (s.toks.length + 2) s Modifiers.empty
  let close ← s'.prev
  pure (.mk (.matrix args none) ⟨open_.start, close.stop⟩, s')

/-- `group_to_matrix` (parser.rs:504-546) -/
def groupToMatrix (t : Token) : PRes PItem :=
  match t.value with
  | [c] =>
    match Gen.groups.find? (·.1 = c) with
    | some (_, fs) =>
      .ok (.mk (.matrix (fs.foldl (fun (m : Modifiers) (f : Nat × Bool) =>
          { m with feats := setAt m.feats f.1 (some (.bin (if f.2 then .pos else .neg))) }) Modifiers.empty) none) (tokPos t))
    | none => .err (tokErr "UnknownGrouping" t)
  | _ => .err (tokErr "UnknownGrouping" t)

def orMod (p c : Option ModKind) : Option ModKind := if p.isNone then c else p

/-- `join_group_with_params` (parser.rs:473-495) -/
def joinGroupWithParams (chr params : PItem) : PRes PItem :=
  match chr.kind.asMatrix, params.kind.asMatrix with
  | some c, some p =>
    .ok (.mk (.matrix { nodes := List.zipWith orMod p.nodes c.nodes, feats := List.zipWith orMod p.feats c.feats,
                        suprs := { stress := orMod p.suprs.stress c.suprs.stress, secStress := orMod p.suprs.secStress c.suprs.secStress,
                                   long := orMod p.suprs.long c.suprs.long, overlong := orMod p.suprs.overlong c.suprs.overlong,
                                   tone := if p.suprs.tone.isNone then c.suprs.tone else p.suprs.tone } } none)
          ⟨chr.pos.start, params.pos.stop⟩)
  | _, _ => .panic "join_group_with_params: expect(matrix)"

/-- `get_group` (parser.rs:646-664) -/
def getGroup (s : PS) : PRes It := do
  let chr ← groupToMatrix s.cur
  let s1 := s.advance
  let (colon, s2) := s1.expect .colon
  if !colon then pure (chr, s2)
  else
    let (sq, s3) := s2.expect .leftSquare
    if !sq then .err (tokErr "ExpectedMatrix" s3.cur)
    else do
      let (params, s4) ← getParams s3
      let j ← joinGroupWithParams chr params
      pure (j, s4)

/-- `Segment::check_and_apply_diacritic` -/
def checkAndApplyDia (seg : Seg) (d : Gen.Dia) : PRes (Except (Nat × Bool) Seg) :=
  match seg.matchDiaMods d.prereqNodes d.prereqFeats with
  | .ok none =>
    (match seg.applyDiaPayload d with
     | .ok s' => .ok (.ok s')
     | .err _ => .panic "apply_diacritic_payload" | .panic p => .panic p | .outOfFuel p => .outOfFuel p)
  | .ok (some e) => .ok (.error e)
  | .err _ => .panic "match_modifiers" | .panic p => .panic p | .outOfFuel p => .outOfFuel p

/-- the diacritic loop of `get_ipa` -/
def ipaDias (elm : Pos) : Nat → PS → Seg → PRes (Seg × PS)
  | 0, _, _ => .outOfFuel "get_ipa"
  | fuel + 1, s, seg =>
    match s.cur.kind with
    | .diacritic i =>
      let dia := s.cur
      let s' := s.advance
      match Gen.diacritics[i]? with
      | none => .panic "DIACRITS[*d as usize]"
      | some d =>
        match checkAndApplyDia seg d with
        | .ok (.ok seg') => ipaDias elm fuel s' seg'
        | .ok (.error (_, isNode)) =>
          .err ⟨if isNode then "DiacriticDoesNotMeetPreReqsNode" else "DiacriticDoesNotMeetPreReqsFeat", [(elm.start, elm.stop), (dia.start, dia.stop)]⟩
        | .err e => .err e | .panic p => .panic p | .outOfFuel p => .outOfFuel p
    | _ => .ok (seg, s)

/-- `get_ipa` (parser.rs:666-704) -/
def getIpa (s : PS) : PRes It :=
  match ParseWord.lookup s.cur.value with
  | none => .err (tokErr "UnknownIPA" s.cur)
  | some seg0 => do
    let pos := tokPos s.cur
    let (seg, s1) ← ipaDias pos (s.toks.length + 2) s.advance seg0
    let (colon, s2) := s1.expect .colon
    if !colon then do
      let p ← s2.prev
      pure (.mk (.ipa seg none) ⟨pos.start, p.stop⟩, s2)
    else
      let (sq, s3) := s2.expect .leftSquare
      if !sq then .err (tokErr "ExpectedMatrix" s3.cur)
      else do
        let (params, s4) ← getParams s3
        match params.kind.asMatrix with
        | some m => pure (.mk (.ipa seg (some m)) ⟨pos.start, params.pos.stop⟩, s4)
        | none => .panic "get_ipa: as_matrix().unwrap()"

/-- `get_var_assign` (parser.rs:706-711) -/
def getVarAssign (number : Token) (chr : PItem) : PRes PItem := do
  let n ← parseUsize "get_var_assign: number-too-large" number.value
  match chr.kind.asMatrix with
  | some m => pure (.mk (.matrix m (some n)) chr.pos)
  | none => .panic "get_var_assign: expect(matrix)"

/-- `= number` after a group or a matrix -/
def varAssignTail (chr : PItem) (s : PS) : PRes (Option It) :=
  let (eq, s1) := s.expect .equals
  if eq then
    match s1.eatExpect .number with
    | none => .err (tokErr "ExpectedVariable" s1.cur)
    | some (n, s2) => do
      let r ← getVarAssign n chr
      pure (some (r, s2))
  else pure (some (chr, s1))

/-- `get_seg` (parser.rs:713-741) -/
def getSeg (s : PS) : PRes (Option It) :=
  if s.peek .cardinal then do
    let r ← getIpa s
    pure (some r)
  else if s.peek .group then do
    let (chr, s1) ← getGroup s
    varAssignTail chr s1
  else
    let (sq, s1) := s.expect .leftSquare
    if sq then do
      let (params, s2) ← getParams s1
      varAssignTail params s2
    else pure none

/-- `get_var` (parser.rs:743-759) -/
def getVar (s : PS) : PRes (Option It) :=
  match s.eatExpect .number with
  | none => pure none
  | some (t, s1) =>
    let (colon, s2) := s1.expect .colon
    if !colon then pure (some (.mk (.variable t none) (tokPos t), s2))
    else
      let (sq, s3) := s2.expect .leftSquare
      if !sq then .err (tokErr "ExpectedMatrix" s3.cur)
      else do
        let (params, s4) ← getParams s3
        match params.kind.asMatrix with
        | some m => pure (some (.mk (.variable t (some m)) ⟨t.start, params.pos.stop⟩, s4))
        | none => .panic "get_var: expect(matrix)"

/-- `= number` after a syllable or a structure: the variable number, if any -/
def syllVarTail (s : PS) : PRes (Option Nat × PS) :=
  let (eq, s1) := s.expect .equals
  if eq then
    match s1.eatExpect .number with
    | none => .err (tokErr "ExpectedVariable" s1.cur)
    | some (n, s2) => do
      let num ← parseUsize "get_syll/get_struct: number-too-large" n.value
      pure (some num, s2)
  else pure (none, s1)

/-- `x - 1` on a `usize` in the release profile -/
def wpred (x : Nat) : Nat := if x = 0 then 2 ^ 64 - 1 else x - 1

/-- what follows the `%` or the `⟩`: `(':' PARAMS)? VAR_ASN?`; returns stress, tone, variable, end column.
    `self.curr_tkn.position.start - 1` wraps at column 0 (release profile) -/
def syllTail (s : PS) : PRes ((Option ModKind × Option ModKind × Option Nat × Option Nat × Nat) × PS) :=
  let (colon, s1) := s.expect .colon
  if !colon then do
    let endPos := wpred s1.cur.start
    let (v, s2) ← syllVarTail s1
    pure ((none, none, none, v, endPos), s2)
  else
    let (sq, s2) := s1.expect .leftSquare
    if !sq then .err (tokErr "ExpectedMatrix" s2.cur)
    else do
      let (mods, s3) ← getParamArgs true (s2.toks.length + 2) s2 Modifiers.empty
      let p ← s3.prev
      let (v, s4) ← syllVarTail s3
      pure ((mods.suprs.stress, mods.suprs.secStress, mods.suprs.tone, v, p.stop), s4)

/-- `get_syll` (parser.rs:850-881) -/
def getSyll (s : PS) : PRes (Option It) :=
  let start := s.cur.start
  let (pc, s1) := s.expect .syllable
  if !pc then pure none
  else do
    let ((st, sec, tone, v, endPos), s2) ← syllTail s1
    pure (some (.mk (.syllable st sec tone v) ⟨start, endPos⟩, s2))

/-- the loop of `get_set` (parser.rs:820-838) -/
def setLoop : Nat → PS → List PItem → PRes (List PItem × PS)
  | 0, _, _ => .outOfFuel "get_set"
  | fuel + 1, s, terms =>
    if !s.hasMore then .ok (terms, s)
    else if s.cur.kind = .rightCurly then .ok (terms, s.advance)
    else if s.cur.kind = .comma then setLoop fuel s.advance terms
    else
      match getSeg s with
      | .ok (some (x, s')) => setLoop fuel s' (terms ++ [x])
      | .ok none =>
        (match getBound s with
         | some (x, s') => setLoop fuel s' (terms ++ [x])
         | none =>
           match getSyll s with
           | .ok (some (x, s')) => setLoop fuel s' (terms ++ [x])
           | .ok none => .err (tokErr "ExpectedSegment" s.cur)
           | .err e => .err e | .panic p => .panic p | .outOfFuel p => .outOfFuel p)
      | .err e => .err e | .panic p => .panic p | .outOfFuel p => .outOfFuel p

/-- `get_set` (parser.rs:812-848) -/
def getSet (s : PS) : PRes (Option It) :=
  let start := s.cur.start
  let (lc, s1) := s.expect .leftCurly
  if !lc then pure none
  else do
    let (terms, s2) ← setLoop (s1.toks.length + 2) s1 []
    let p ← s2.prev
    if terms.isEmpty then .err (posErr "EmptySet" ⟨start, p.stop⟩)
    else pure (some (.mk (.set terms) ⟨start, p.stop⟩, s2))

/-- the loop of `get_struct` (parser.rs:889-907) -/
def structLoop : Nat → PS → List PItem → PRes (List PItem × PS)
  | 0, _, _ => .outOfFuel "get_struct"
  | fuel + 1, s, terms =>
    if !s.hasMore then .ok (terms, s)
    else if s.cur.kind = .rightAngle then .ok (terms, s.advance)
    else
      match getSeg s with
      | .ok (some (x, s')) => structLoop fuel s' (terms ++ [x])
      | .ok none =>
        (match s.eatExpect .ellipsis with
         | some (el, s') => structLoop fuel s' (terms ++ [.mk .ellipsis (tokPos el)])
         | none =>
           match getVar s with
           | .ok (some (x, s')) => structLoop fuel s' (terms ++ [x])
           | .ok none => .err (tokErr "ExpectedSegment" s.cur)
           | .err e => .err e | .panic p => .panic p | .outOfFuel p => .outOfFuel p)
      | .err e => .err e | .panic p => .panic p | .outOfFuel p => .outOfFuel p

/-- `get_struct` (parser.rs:883-935) -/
def getStruct (s : PS) : PRes (Option It) :=
  let start := s.cur.start
  let (la, s1) := s.expect .leftAngle
  if !la then pure none
  else do
    let (terms, s2) ← structLoop (s1.toks.length + 2) s1 []
    let ((st, sec, tone, v, endPos), s3) ← syllTail s2
    pure (some (.mk (.struct terms st sec tone v) ⟨start, endPos⟩, s3))

/-- the element loop of `get_opt` (parser.rs:769-779) -/
def optLoop : Nat → PS → List PItem → PRes (List PItem × PS)
  | 0, _, _ => .outOfFuel "get_opt"
  | fuel + 1, s, segs =>
    if !s.hasMore then .ok (segs, s)
    else if s.peek .rightBracket then .ok (segs, s)
    else
      match getBound s with
      | some (x, s') => optLoop fuel s' (segs ++ [x])
      | none =>
        match getSyll s with
        | .ok (some (x, s')) => optLoop fuel s' (segs ++ [x])
        | .ok none =>
          (match getSet s with
           | .ok (some (x, s')) => optLoop fuel s' (segs ++ [x])
           | .ok none =>
             (match getSeg s with
              | .ok (some (x, s')) => optLoop fuel s' (segs ++ [x])
              | .ok none =>
                (match getVar s with
                 | .ok (some (x, s')) => optLoop fuel s' (segs ++ [x])
                 | .ok none => if s.peek .comma then .ok (segs, s) else .err (tokErr "ExpectedSegment" s.cur)
                 | .err e => .err e | .panic p => .panic p | .outOfFuel p => .outOfFuel p)
              | .err e => .err e | .panic p => .panic p | .outOfFuel p => .outOfFuel p)
           | .err e => .err e | .panic p => .panic p | .outOfFuel p => .outOfFuel p)
        | .err e => .err e | .panic p => .panic p | .outOfFuel p => .outOfFuel p

/-- an `Optional` item ending at the token just consumed -/
def optItem (start : Nat) (segs : List PItem) (lo hi : Nat) (s : PS) : PRes (Option It) := do
  let p ← s.prev
  pure (some (.mk (.optional segs lo hi) ⟨start, p.stop⟩, s))

/-- `')'` closes the optional with the bounds read so far, anything else is `ExpectedRightBracket` -/
def optClose (start : Nat) (segs : List PItem) (lo hi : Nat) (s : PS) : PRes (Option It) :=
  let (rb, s') := s.expect .rightBracket
  if rb then optItem start segs lo hi s' else .err (tokErr "ExpectedRightBracket" s'.cur)

/-- after the `:` of `(X, lo:hi)`: an optional second number (absent = 0, and then not compared with the first) -/
def optSecond (start : Nat) (segs : List PItem) (first : Nat) (s : PS) : PRes (Option It) :=
  match s.eatExpect .number with
  | some (n, s') => do
    let second ← parseUsize "get_opt: number-too-large" n.value
    if second < first then .err (tokErr "OptMathError" n) else optClose start segs first second s'
  | none => optClose start segs first 0 s

/-- after the (optional) first number: `)` gives `(X, 0:first)`, `:` goes on to the second number -/
def optAfterFirst (start : Nat) (segs : List PItem) (first : Nat) (s : PS) : PRes (Option It) :=
  let (rb, s1) := s.expect .rightBracket
  if rb then optItem start segs 0 first s1
  else
    let (cl, s2) := s1.expect .colon
    if !cl then .err (tokErr "ExpectedColon" s2.cur) else optSecond start segs first s2

/-- after the elements: `)` gives `(X, 0:1)`, `,` goes on to the bounds -/
def optBounds (start : Nat) (segs : List PItem) (s : PS) : PRes (Option It) :=
  let (rb, s1) := s.expect .rightBracket
  if rb then optItem start segs 0 1 s1
  else
    let (cm, s2) := s1.expect .comma
    if !cm then .err (tokErr "ExpectedComma" s2.cur)
    else
      match s2.eatExpect .number with
      | some (n, s3) => do
        let first ← parseUsize "get_opt: number-too-large" n.value
        optAfterFirst start segs first s3
      | none => optAfterFirst start segs 0 s2

/-- `get_opt` (parser.rs:761-810) -/
def getOpt (s : PS) : PRes (Option It) :=
  let (lb, s1) := s.expect .leftBracket
  if !lb then pure none
  else do
    let (segs, s2) ← optLoop (s1.toks.length + 2) s1 []
    optBounds s.cur.start segs s2

/-- `get_term` (parser.rs:937-947) -/
def getTerm (s : PS) : PRes (Option It) := do
  match ← getSyll s with
  | some r => pure (some r)
  | none =>
  match ← getStruct s with
  | some r => pure (some r)
  | none =>
  match ← getSet s with
  | some r => pure (some r)
  | none =>
  match ← getSeg s with
  | some r => pure (some r)
  | none =>
  match ← getVar s with
  | some r => pure (some r)
  | none =>
  match ← getOpt s with
  | some (x, _) => .err (posErr "OptLocError" x.pos)
  | none => pure none

/-- the loop of `get_env_elements` (parser.rs:320-346) -/
def envElsLoop : Nat → PS → List PItem → Bool → Pos → PRes ((List PItem × Bool × Pos) × PS)
  | 0, _, _, _, _ => .outOfFuel "get_env_elements"
  | fuel + 1, s, els, hasWb, wbPos =>
    match getWordBound s with
    | some (x, s') =>
      if hasWb then .err ⟨"TooManyWordBoundaries", [(x.pos.start, x.pos.start + 1)]⟩
      else envElsLoop fuel s' (els ++ [x]) true x.pos
    | none =>
      match getSyllBound s with
      | some (x, s') => envElsLoop fuel s' (els ++ [x]) hasWb wbPos
      | none =>
        match s.eatExpect .ellipsis with
        | some (el, s') => envElsLoop fuel s' (els ++ [.mk .ellipsis (tokPos el)]) hasWb wbPos
        | none =>
          match getOpt s with
          | .ok (some (x, s')) => envElsLoop fuel s' (els ++ [x]) hasWb wbPos
          | .ok none =>
            (match getTerm s with
             | .ok (some (x, s')) => envElsLoop fuel s' (els ++ [x]) hasWb wbPos
             | .ok none => .ok ((els, hasWb, wbPos), s)
             | .err e => .err e | .panic p => .panic p | .outOfFuel p => .outOfFuel p)
          | .err e => .err e | .panic p => .panic p | .outOfFuel p => .outOfFuel p

def headIsWb (els : List PItem) : Bool := match els.head? with | some x => x.kind.isWordBound | none => false
def lastIsWb (els : List PItem) : Bool := match els.getLast? with | some x => x.kind.isWordBound | none => false

/-- the check after the loop of `get_env_elements`: a word boundary may only stand at the outer edge -/
def wbCheck (isAfter hasWb : Bool) (els : List PItem) (wbPos : Pos) : PRes Unit :=
  if hasWb then
    if els.isEmpty then .panic "els.first().expect(contains wbound)"
    else if !isAfter && !headIsWb els then .err ⟨"StuffBeforeWordBound", [(wbPos.start, wbPos.start + 1)]⟩
    else if isAfter && !lastIsWb els then .err ⟨"StuffAfterWordBound", [(wbPos.start, wbPos.start + 1)]⟩
    else .ok ()
  else .ok ()

/-- `get_env_elements` (parser.rs:314-358) -/
def getEnvElements (isAfter : Bool) (s : PS) : PRes (List PItem × PS) := do
  let ((els, hasWb, wbPos), s') ← envElsLoop (s.toks.length + 2) s [] false ⟨0, 0⟩
  let _ ← wbCheck isAfter hasWb els wbPos
  pure (els, s')

/-- `get_env_term` (parser.rs:360-378) -/
def getEnvTerm (s : PS) : PRes (PEnv × PS) := do
  let start := s.cur.start
  let (before, s1) ← getEnvElements false s
  let (ul, s2) := s1.expect .underline
  if !ul then .err (tokErr "ExpectedUnderline" s2.cur)
  else do
    let (after, s3) ← getEnvElements true s2
    if s3.peek .underline then .err (tokErr "TooManyUnderlines" s3.cur)
    else do
      let p ← s3.prev
      pure (.mk before after ⟨start, p.stop⟩, s3)

/-- `self.pos = k; self.advance()`: the parser's only backtracking.  `k` is `pos - 2` resp. `pstn - 1`; both are
    computed here with truncated subtraction - `get_spec_env` is only entered after `/`, `|` or `//` has been
    consumed, so `pstn ≥ 1` and neither subtraction underflows (in the Rust it would wrap, not panic) -/
def PS.jumpAdvance (s : PS) (k : Nat) : PS := ({ s with pos := k } : PS).advance

/-- back to the token at `k`: `self.pos = k; self.curr_tkn = self.token_list[k].clone()` (the repair of D13b: re-reading
    through `advance` turned a comment after the `_` into `Eol`) -/
def PS.jumpTo (s : PS) (k : Nat) : PS := { s with pos := k, cur := s.toks.getD k default }

/-- `get_spec_env` (parser.rs:380-414): `_ , X` -/
def getSpecEnv (s : PS) : PRes (Option (List PItem) × PS) :=
  let start := s.cur.start
  let pstn := s.pos
  let (ul, s1) := s.expect .underline
  if !ul then pure (none, s1)
  else
    let (cm, s2) := s1.expect .comma
    if !cm then pure (none, s2.jumpTo pstn)
    else do
      let (x, s3) ← getEnvElements false s2
      let (ul2, s4) := s3.expect .underline
      if ul2 then pure (none, s4.jumpTo pstn)
      else do
        let p ← s4.prev
        let position : Pos := ⟨start, p.stop⟩
        pure (some [.mk (.environment [.mk x [] position]) position,
                    .mk (.environment [.mk [] x.reverse position]) position], s4)

/-- the `,`-separated terms of `:{ ... }:` (parser.rs:428-436) -/
def envsLoop : Nat → PS → List PEnv → PRes (List PEnv × PS)
  | 0, _, _ => .outOfFuel "get_envs"
  | fuel + 1, s, envs =>
    let (rc, s1) := s.expect .rightColCurly
    if rc then .ok (envs, s1)
    else
      let (cm, s2) := s1.expect .comma
      if cm then
        match getEnvTerm s2 with
        | .ok (x, s3) => envsLoop fuel s3 (envs ++ [x])
        | .err e => .err e | .panic p => .panic p | .outOfFuel p => .outOfFuel p
      else .err (tokErr "ExpectedComma" s2.cur)

def PEnv.pos : PEnv → Pos | .mk _ _ p => p

/-- `get_envs` (parser.rs:416-440) -/
def getEnvs (s : PS) : PRes It :=
  let start := s.cur.start
  let (lc, s1) := s.expect .leftColCurly
  if !lc then do
    let (env, s2) ← getEnvTerm s1
    pure (.mk (.environment [env]) env.pos, s2)
  else do
    let (e1, s2) ← getEnvTerm s1
    let (envs, s3) ← envsLoop (s2.toks.length + 2) s2 [e1]
    let p ← s3.prev
    pure (.mk (.environment envs) ⟨start, p.stop⟩, s3)

/-- the loop of `get_env` (parser.rs:447-453) -/
def envLoop : Nat → PS → List PItem → PRes (List PItem × PS)
  | 0, _, _ => .outOfFuel "get_env"
  | fuel + 1, s, envs =>
    match getEnvs s with
    | .ok (x, s1) =>
      let (cm, s2) := s1.expect .comma
      if cm then envLoop fuel s2 (envs ++ [x]) else .ok (envs ++ [x], s2)
    | .err e => .err e | .panic p => .panic p | .outOfFuel p => .outOfFuel p

/-- `get_env` (parser.rs:442-457) -/
def getEnv (s : PS) : PRes (List PItem × PS) := do
  let (spec, s1) ← getSpecEnv s
  match spec with
  | some v => pure (v, s1)
  | none => envLoop (s1.toks.length + 2) s1 []

/-- `get_except_block` / `get_context` -/
def getExceptBlock (s : PS) : PRes (List PItem × PS) :=
  let (p, s1) := s.expect .pipe
  if p then getEnv s1
  else
    let (d, s2) := s1.expect .dubSlash
    if d then getEnv s2 else pure ([], s2)

def getContext (s : PS) : PRes (List PItem × PS) :=
  let (p, s1) := s.expect .slash
  if p then getEnv s1 else pure ([], s1)

/-- `get_input_els` (parser.rs:949-966) -/
def inputElsLoop : Nat → PS → List PItem → PRes (List PItem × PS)
  | 0, _, _ => .outOfFuel "get_input_els"
  | fuel + 1, s, els =>
    match s.eatExpect .ellipsis with
    | some (el, s') => inputElsLoop fuel s' (els ++ [.mk .ellipsis (tokPos el)])
    | none =>
      match getSyllBound s with
      | some (x, s') => inputElsLoop fuel s' (els ++ [x])
      | none =>
        match getTerm s with
        | .ok (some (x, s')) => inputElsLoop fuel s' (els ++ [x])
        | .ok none =>
          (match getWordBound s with
           | some (w, _) => .err (posErr "WordBoundLoc" w.pos)
           | none => .ok (els, s))
        | .err e => .err e | .panic p => .panic p | .outOfFuel p => .outOfFuel p

/-- `get_output_el` (parser.rs:968-980) -/
def getOutputEl (s : PS) : PRes (Option It) := do
  match ← getSyll s with
  | some r => pure (some r)
  | none =>
  match ← getStruct s with
  | some r => pure (some r)
  | none =>
  match ← getSet s with
  | some r => pure (some r)
  | none =>
  match ← getSeg s with
  | some r => pure (some r)
  | none =>
  match ← getVar s with
  | some r => pure (some r)
  | none => pure (getSyllBound s)

/-- `get_output_els` -/
def outputElsLoop : Nat → PS → List PItem → PRes (List PItem × PS)
  | 0, _, _ => .outOfFuel "get_output_els"
  | fuel + 1, s, els =>
    match getOutputEl s with
    | .ok (some (x, s')) => outputElsLoop fuel s' (els ++ [x])
    | .ok none => .ok (els, s)
    | .err e => .err e | .panic p => .panic p | .outOfFuel p => .outOfFuel p

/-- `get_empty` -/
def getEmpty (s : PS) : Option It :=
  if !s.peek .star && !s.peek .emptySet then none
  else some (.mk .emptySet (tokPos s.cur), s.advance)

/-- what `get_input` / `get_output` do once a term has been read -/
inductive TermStep where
  /-- an empty term not followed by `,`: leave the loop, the term is not pushed -/
  | stop (s : PS)
  /-- an empty term followed by `,` (consumed): the empty term is skipped, as a trailing comma is (the repair of D24) -/
  | skip (s : PS)
  /-- push the term; `more` = a `,` followed (and was consumed) -/
  | push (s : PS) (more : Bool)

/-- the shared tail of the loops of `get_input` and `get_output` (parser.rs:1016-1035, 1066-1083): an empty term is
    skipped when a `,` follows and ends the list otherwise; a diacritic directly after a (non-empty) term is an error;
    then an optional `,` -/
def termStep (term : List PItem) (s1 : PS) : PRes TermStep :=
  if term.isEmpty then
    let (cm, s2) := s1.expect .comma
    if cm then .ok (.skip s2) else .ok (.stop s2)
  else
    match (if isDiacritic s1.cur.kind then term.getLast? else none) with
    | some it => .err ⟨"UnexpectedDiacritic", [(it.pos.start, it.pos.stop), (s1.cur.start, s1.cur.stop)]⟩
    | none =>
      let (cm2, s3) := s1.expect .comma
      .ok (.push s3 cm2)

/-- `get_input` (parser.rs:1000-1037) -/
def inputLoop : Nat → PS → List (List PItem) → PRes (List (List PItem) × PS)
  | 0, _, _ => .outOfFuel "get_input"
  | fuel + 1, s, inputs =>
    match getEmpty s with
    | some (e, s1) =>
      let (cm, s2) := s1.expect .comma
      if !cm && (!s2.peek .arrow && !s2.peek .greaterThan) then .err (tokErr "InsertErr" s2.cur)
      else inputLoop fuel s2 (inputs ++ [[e]])
    | none =>
      match inputElsLoop (s.toks.length + 2) s [] with
      | .ok (term, s1) =>
        if term.isEmpty && inputs.isEmpty then
          (match s1.cur.value.head? with
           | some _ => .err (colErr "UnknownCharacter" s1.pos)
           | none => .panic "get_input: value.chars().next().unwrap()")
        else
          match termStep term s1 with
          | .ok (.stop s2) => .ok (inputs, s2)
          | .ok (.skip s2) => inputLoop fuel s2 inputs
          | .ok (.push s3 true) => inputLoop fuel s3 (inputs ++ [term])
          | .ok (.push s3 false) => .ok (inputs ++ [term], s3)
          | .err e => .err e | .panic p => .panic p | .outOfFuel p => .outOfFuel p
      | .err e => .err e | .panic p => .panic p | .outOfFuel p => .outOfFuel p

def getInput (s : PS) : PRes (List (List PItem) × PS) := do
  let (inputs, s') ← inputLoop (s.toks.length + 2) s []
  if inputs.isEmpty then do
    let t ← s'.here
    .err (colErr "EmptyInput" t.start)
  else pure (inputs, s')

/-- `peek` for what may follow `&` or `*` in the output -/
def outputFollow (s : PS) : Bool :=
  s.peek .slash || s.peek .pipe || s.peek .dubSlash || s.peek .eol || s.peek .comment

/-- `get_output` (parser.rs:1039-1083) -/
def outputLoop : Nat → PS → List (List PItem) → PRes (List (List PItem) × PS)
  | 0, _, _ => .outOfFuel "get_output"
  | fuel + 1, s, outputs =>
    match s.eatExpect .ampersand with
    | some (el, s1) =>
      let (cm, s2) := s1.expect .comma
      if !cm && !outputFollow s2 then .err (tokErr "MetathErr" s2.cur)
      else outputLoop fuel s2 (outputs ++ [[.mk .metathesis (tokPos el)]])
    | none =>
      match getEmpty s with
      | some (e, s1) =>
        let (cm, s2) := s1.expect .comma
        if !cm && !outputFollow s2 then .err (tokErr "DeleteErr" s2.cur)
        else outputLoop fuel s2 (outputs ++ [[e]])
      | none =>
        match outputElsLoop (s.toks.length + 2) s [] with
        | .ok (term, s1) =>
          if term.isEmpty && outputs.isEmpty then
            (match s1.here with
             | .ok t => .err (colErr "EmptyOutput" t.start)
             | .err e => .err e | .panic p => .panic p | .outOfFuel p => .outOfFuel p)
          else
            match termStep term s1 with
            | .ok (.stop s2) => .ok (outputs, s2)
            | .ok (.skip s2) => outputLoop fuel s2 outputs
            | .ok (.push s3 true) => outputLoop fuel s3 (outputs ++ [term])
            | .ok (.push s3 false) => .ok (outputs ++ [term], s3)
            | .err e => .err e | .panic p => .panic p | .outOfFuel p => .outOfFuel p
        | .err e => .err e | .panic p => .panic p | .outOfFuel p => .outOfFuel p

def getOutput (s : PS) : PRes (List (List PItem) × PS) := do
  let (outputs, s') ← outputLoop (s.toks.length + 2) s []
  if outputs.isEmpty then do
    let t ← s'.here
    .err (colErr "EmptyOutput" t.start)
  else pure (outputs, s')

/-- `expect(Eol) || expect(Comment)` -/
def expectEnd (s : PS) : Bool × PS :=
  let (e, s1) := s.expect .eol
  if e then (true, s1) else s1.expect .comment

/-- `expect(Arrow) || expect(GreaterThan)` -/
def expectArrow (s : PS) : Bool × PS :=
  let (a, s1) := s.expect .arrow
  if a then (true, s1) else s1.expect .greaterThan

/-- `('/' ENV)? (PIPE ENV)? EOL` -/
def ruleEnv (input output : List (List PItem)) (s : PS) : PRes PRule := do
  let (context, s1) ← getContext s
  let (except, s2) ← getExceptBlock s1
  let (e, s3) := expectEnd s2
  if e then pure ⟨input, output, context, except⟩ else .err (tokErr "ExpectedEndLine" s3.cur)

/-- everything after the arrow -/
def ruleTail (input : List (List PItem)) (s : PS) : PRes PRule := do
  let (output, s1) ← getOutput s
  let (e, s2) := expectEnd s1
  if e then pure ⟨input, output, [], []⟩
  else if !s2.peek .slash && !s2.peek .pipe && !s2.peek .dubSlash then .err (tokErr "ExpectedEndLine" s2.cur)
  else ruleEnv input output s2

/-- `rule` (parser.rs:1085-1114) -/
def rule (s : PS) : PRes PRule := do
  let (input, s1) ← getInput s
  let (g, s2) := expectArrow s1
  if g then ruleTail input s2 else .err (tokErr "ExpectedArrow" s2.cur)

/-- `Parser::new(tokens).parse()` (parser.rs:243-252, 1116-1122) -/
def parse (toks : List Token) : PRes (Option PRule) :=
  match toks with
  | [] => .panic "Parser::new: token_list[0]"
  | t :: _ =>
    if t.kind = .eol || t.kind = .comment then .ok none
    else match rule { toks := toks, pos := 0, cur := t } with
      | .ok r => .ok (some r)
      | .err e => .err e | .panic p => .panic p | .outOfFuel p => .outOfFuel p

/-- the lexer's errors in the parser's error type -/
def ofLexErr (e : Lex.LErr) : PErr := ⟨e.name, [(e.start, e.stop)]⟩

/-- lex then parse one rule line, as `parse_rule_groups` does -/
def parseLine (src : Text) : PRes (Option PRule) :=
  match Lex.lexLine src with
  | .ok toks => parse toks
  | .err e => .err (ofLexErr e)
  | .panic p => .panic p
  | .outOfFuel p => .outOfFuel p

end Parse
end Asca
