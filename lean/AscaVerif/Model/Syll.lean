import AscaVerif.Model.Mods
/-! Model of `syll.rs` (Syllable, length = run of equal segments, apply_supras, apply_syll_mods, replace/insert)
    and of the suprasegmental matchers of `subrule.rs:2266-2622` (match_stress, match_seg_length, match_tone). -/
namespace Asca
open Outcome

inductive Stress where | primary | secondary | unstressed
  deriving DecidableEq, Repr, Inhabited

/-- `struct Syllable { segments: VecDeque<Segment>, stress, tone: u16 }` -/
structure Syll where
  segs : List Seg
  stress : Stress := .unstressed
  tone : Nat := 0
  deriving DecidableEq, Repr, Inhabited

/-- `ModKind::as_bool(alphas, err_pos)` (parser.rs:34-56) -/
def ModKind.asBool (k : ModKind) (al : Alphas) : Res Bool :=
  match k with
  | .bin b => .ok (b == .pos)
  | .alpha (.alpha ch) => match al.get? ch with | some a => .ok a.asBinary | none => .err "AlphaUnknown"
  | .alpha (.inv ch) => match al.get? ch with | some a => .ok (!a.asBinary) | none => .err "AlphaUnknown"

namespace Syll

/-- number of copies of `x` at the head of `l` -/
def runLen (x : Seg) : List Seg → Nat
  | [] => 0
  | y :: ys => if y = x then 1 + runLen x ys else 0

/-- `get_seg_length_at(pos)` (syll.rs:97): 1 + the number of following equal segments (also 1 when `pos` is out of range) -/
def segLengthAt (σ : Syll) (pos : Nat) : Nat :=
  match σ.segs[pos]? with
  | some x => 1 + runLen x (σ.segs.drop (pos + 1))
  | none => 1

/-- `VecDeque::insert(pos, x)` repeated `n` times (panics when `pos > len`) -/
def insertCopies (segs : List Seg) (pos : Nat) (x : Seg) (n : Nat) : List Seg :=
  segs.take pos ++ List.replicate n x ++ segs.drop pos

/-- `VecDeque::remove(pos)` repeated `n` times -/
def removeN (segs : List Seg) (pos : Nat) (n : Nat) : List Seg :=
  segs.take pos ++ segs.drop (pos + n)

/-- the stress `apply_syll_mods` computes (syll.rs:188-207) -/
def newStress (σ : Syll) (al : Alphas) (mods : SupraSegs) : Res Stress :=
  match mods.stress, mods.secStress with
  | none, none => .ok σ.stress
  | none, some sec => do
    let b ← sec.asBool al
    pure (if b then .secondary else if σ.stress = .secondary then .unstressed else σ.stress)
  | some prim, none => do
    let b ← prim.asBool al
    pure (if b then .primary else .unstressed)
  | some prim, some sec => do
    let p ← prim.asBool al
    let s ← sec.asBool al
    match p, s with
    | true, true => pure .secondary
    | true, false => pure .primary
    | false, false => pure .unstressed
    | false, true => .err "SecStrPosStrNeg"

/-- `apply_syll_mods` (syll.rs:187-214) -/
def applySyllMods (σ : Syll) (al : Alphas) (mods : SupraSegs) : Res Syll := do
  let stress ← σ.newStress al mods
  pure { σ with stress := stress, tone := (match mods.tone with | some t => t | none => σ.tone) }

/-- `while seg_len < t { insert(pos, seg); seg_len += 1; len_change += 1 }` -/
def growTo (segs : List Seg) (pos : Nat) (seg : Seg) (L t : Nat) : List Seg × Int :=
  if L < t then (insertCopies segs pos seg (t - L), ((t - L : Nat) : Int)) else (segs, 0)

/-- `while seg_len > t { remove(pos); seg_len -= 1; len_change -= 1 }` -/
def shrinkTo (segs : List Seg) (pos : Nat) (L t : Nat) : List Seg × Int :=
  if L > t then (removeN segs pos (L - t), -((L - t : Nat) : Int)) else (segs, 0)

/-- the length part of `apply_supras` (syll.rs:122-180): new segment list and the length change -/
def applyLength (σ : Syll) (al : Alphas) (mods : SupraSegs) (pos : Nat) : Res (List Seg × Int) :=
  match σ.segs[pos]? with
  | none => .panic "apply_supras: self.segments[pos]"
  | some seg =>
    let L := σ.segLengthAt pos
    let grow (t : Nat) : List Seg × Int := growTo σ.segs pos seg L t
    let shrink (t : Nat) : List Seg × Int := shrinkTo σ.segs pos L t
    match mods.long, mods.overlong with
    | none, none => .ok (σ.segs, 0)
    | none, some v => do
      let b ← v.asBool al
      pure (if b then grow 3 else shrink 2)
    | some l, none => do
      let b ← l.asBool al
      pure (if b then grow 2 else shrink 1)
    | some l, some v => do
      let bl ← l.asBool al
      let bv ← v.asBool al
      match bl, bv with
      | true, true => pure (grow 3)
      | true, false => pure (if L > 2 then shrink 2 else grow 2)
      | false, false => pure (shrink 1)
      | false, true => .err "OverlongPosLongNeg"

/-- `apply_supras` (syll.rs:122-185) -/
def applySupras (σ : Syll) (al : Alphas) (mods : SupraSegs) (pos : Nat) : Res (Syll × Int) := do
  let (segs, lc) ← σ.applyLength al mods pos
  let σ' ← ({ σ with segs := segs } : Syll).applySyllMods al mods
  pure (σ', lc)

/-- the segment loop of `Syllable::apply_seg_mods` (syll.rs:110-117): every copy of the run gets the modifiers -/
def applyModsRun (nodes feats : List (Option ModKind)) : Nat → Nat → List Seg → Alphas → Res (List Seg × Alphas)
  | 0, _, segs, al => .ok (segs, al)
  | n + 1, pos, segs, al =>
    match segs[pos]? with
    | none => .panic "apply_seg_mods: position is in bounds"
    | some s =>
      match s.applySegMods al nodes feats false with
      | .ok (s', al') => applyModsRun nodes feats n (pos + 1) (segs.set pos s') al'
      | .err e => .err e
      | .panic p => .panic p
      | .outOfFuel p => .outOfFuel p

/-- `Syllable::apply_seg_mods` (syll.rs:107-120) -/
def applySegMods (σ : Syll) (al : Alphas) (mods : Modifiers) (startPos : Nat) : Res (Syll × Alphas × Int) := do
  let L := σ.segLengthAt startPos
  let (segs, al') ← applyModsRun mods.nodes mods.feats L startPos σ.segs al
  let (σ', lc) ← ({ σ with segs := segs } : Syll).applySupras al' mods.suprs startPos
  pure (σ', al', lc)

/-- `apply_supras_to_run` / `apply_seg_mods_to_run` (syll.rs, after the repair of D33): the same as `applyLength`,
    `applySupras`, `applySegMods` for a run whose length `L` the caller knows - `replace_segment` and `insert_segment`
    pass 1, so that a segment just written does not borrow length from an equal neighbour.  (`apply_supras` and
    `apply_seg_mods` themselves are these with `L = get_seg_length_at(pos)`: `applySupras_eq_run`, `applySegMods_eq_run`.) -/
def applyLengthL (σ : Syll) (al : Alphas) (mods : SupraSegs) (pos L : Nat) : Res (List Seg × Int) :=
  match σ.segs[pos]? with
  | none => .panic "apply_supras: self.segments[pos]"
  | some seg =>
    let grow (t : Nat) : List Seg × Int := growTo σ.segs pos seg L t
    let shrink (t : Nat) : List Seg × Int := shrinkTo σ.segs pos L t
    match mods.long, mods.overlong with
    | none, none => .ok (σ.segs, 0)
    | none, some v => do
      let b ← v.asBool al
      pure (if b then grow 3 else shrink 2)
    | some l, none => do
      let b ← l.asBool al
      pure (if b then grow 2 else shrink 1)
    | some l, some v => do
      let bl ← l.asBool al
      let bv ← v.asBool al
      match bl, bv with
      | true, true => pure (grow 3)
      | true, false => pure (if L > 2 then shrink 2 else grow 2)
      | false, false => pure (shrink 1)
      | false, true => .err "OverlongPosLongNeg"

def applySuprasL (σ : Syll) (al : Alphas) (mods : SupraSegs) (pos L : Nat) : Res (Syll × Int) := do
  let (segs, lc) ← σ.applyLengthL al mods pos L
  let σ' ← ({ σ with segs := segs } : Syll).applySyllMods al mods
  pure (σ', lc)

def applySegModsL (σ : Syll) (al : Alphas) (mods : Modifiers) (startPos L : Nat) : Res (Syll × Alphas × Int) := do
  let (segs, al') ← applyModsRun mods.nodes mods.feats L startPos σ.segs al
  let (σ', lc) ← ({ σ with segs := segs } : Syll).applySuprasL al' mods.suprs startPos L
  pure (σ', al', lc)

theorem applyLength_eq_run (σ : Syll) (al : Alphas) (mods : SupraSegs) (pos : Nat) :
    σ.applyLength al mods pos = σ.applyLengthL al mods pos (σ.segLengthAt pos) := by
  unfold applyLength applyLengthL; rfl

theorem applySupras_eq_run (σ : Syll) (al : Alphas) (mods : SupraSegs) (pos : Nat) :
    σ.applySupras al mods pos = σ.applySuprasL al mods pos (σ.segLengthAt pos) := by
  unfold applySupras applySuprasL; rw [applyLength_eq_run]

/-- `replace_segment` (syll.rs:46-63) -/
def replaceSegment (σ : Syll) (al : Alphas) (pos : Nat) (seg : Seg) (mods : Option Modifiers) : Res (Syll × Alphas × Int) :=
  let L := σ.segLengthAt pos
  let segs1 := removeN σ.segs (pos + 1) (L - 1)
  if pos < segs1.length then
    let σ1 : Syll := { σ with segs := segs1.set pos seg }
    let lc0 : Int := 1 - (L : Int)
    match mods with
    | none => .ok (σ1, al, lc0)
    | some m => do
      let (σ2, al', lc) ← σ1.applySegModsL al m pos 1
      pure (σ2, al', lc0 + lc)
  else .panic "replace_segment: self.segments[pos]"

/-- `insert_segment` (syll.rs:82-95) -/
def insertSegment (σ : Syll) (al : Alphas) (pos : Nat) (seg : Seg) (mods : Option Modifiers) : Res (Syll × Alphas × Int) :=
  let segs1 := if pos > σ.segs.length then σ.segs ++ [seg] else insertCopies σ.segs pos seg 1
  let σ1 : Syll := { σ with segs := segs1 }
  match mods with
  | none => .ok (σ1, al, 0)
  | some m => σ1.applySegModsL al m pos 1

end Syll

namespace Match

/-- one half of `match_stress` (subrule.rs:2266-2344): `isStressed` is "primary or secondary" for the first
    entry and "secondary" for the second -/
def matchStressEntry (al : Alphas) (m : Option ModKind) (holds : Bool) : Bool × Alphas :=
  match m with
  | none => (true, al)
  | some (.bin .neg) => (!holds, al)
  | some (.bin .pos) => (holds, al)
  | some (.alpha (.alpha ch)) =>
    match al.get? ch with
    | some a => (a.asBinary == holds, al)
    | none => (true, al.insert ch (.supra holds))
  | some (.alpha (.inv ch)) =>
    match al.get? ch with
    | some a => (a.asBinary != holds, al)
    | none => (true, al.insert ch (.supra (!holds)))

/-- `match_stress` -/
def matchStress (al : Alphas) (stress secStress : Option ModKind) (σ : Syll) : Bool × Alphas :=
  let (b1, al1) := matchStressEntry al stress (σ.stress != .unstressed)
  if !b1 then (false, al1)
  else matchStressEntry al1 secStress (σ.stress == .secondary)

/-- one half of `match_seg_length` (subrule.rs:2556-2622): `atLeast` = 2 for long, 3 for overlong -/
def matchLengthEntry (al : Alphas) (m : Option ModKind) (L atLeast : Nat) : Bool × Alphas :=
  let holds := decide (L ≥ atLeast)
  match m with
  | none => (true, al)
  | some (.bin .pos) => (holds, al)
  | some (.bin .neg) => (!holds, al)
  | some (.alpha (.alpha ch)) =>
    match al.get? ch with
    | some a => (a.asBinary == holds, al)
    | none => (true, al.insert ch (.supra holds))
  | some (.alpha (.inv ch)) =>
    match al.get? ch with
    | some a => ((!a.asBinary) == holds, al)
    | none => (true, al.insert ch (.supra (!holds)))

def matchSegLength (al : Alphas) (long overlong : Option ModKind) (L : Nat) : Bool × Alphas :=
  let (b1, al1) := matchLengthEntry al long L 2
  if !b1 then (false, al1)
  else matchLengthEntry al1 overlong L 3

end Match
end Asca
