import AscaVerif.Model.AliasLexer
import AscaVerif.Model.Parser
/-! The alias parser (`alias/parser.rs:51-520`): `AliasParser::parse` over the alias lexer's tokens, function by
    function: a romaniser line `segments… > replacements…`, a deromaniser line `replacements… > segments…`, split into
    pairwise `Transformation`s.  Panics (`unreachable!()`, indexing, a tone that does not fit) are values, loops take
    fuel, errors are `AliasSyntaxError` variant names with the spans `format_alias_error` underlines. -/
namespace Asca
namespace AParse
open ALex (AToken ATK)
open Parse (Pos PErr PRes)

/-- `alias/parser.rs: enum SegType` -/
inductive SegType where
  | ipa (s : Seg) (mods : Option Modifiers)
  | matrix (mods : Modifiers)
  deriving Inhabited

/-- `enum AliasParseElement` -/
inductive AKind where
  | empty | syllBound
  | replacement (text : Text) (plus : Bool)
  | segments (segs : List SegType)
  deriving Inhabited

structure AItem where
  kind : AKind
  pos : Pos
  deriving Inhabited

structure Transformation where
  input : AItem
  output : AItem
  deriving Inhabited

structure APS where
  toks : List AToken
  pos : Nat
  cur : AToken
  deriving Inhabited

def tokPos (t : AToken) : Pos := ⟨t.start, t.stop⟩
def tokErr (name : String) (t : AToken) : PErr := ⟨name, [(t.start, t.stop)]⟩

/-- `advance` (alias/parser.rs:65-72): past the end the current token is a made-up `Eol` at the token index -/
def APS.advance (s : APS) : APS :=
  let pos := s.pos + 1
  { s with pos := pos, cur := if pos < s.toks.length then s.toks.getD pos default else ⟨.eol, [], pos, pos + 1⟩ }

def APS.hasMore (s : APS) : Bool := s.pos < s.toks.length
def APS.peek (s : APS) (k : ATK) : Bool := s.cur.kind == k
def APS.expect (s : APS) (k : ATK) : Bool × APS := if s.cur.kind = k then (true, s.advance) else (false, s)
def APS.eatExpect (s : APS) (k : ATK) : Option (AToken × APS) := if s.cur.kind = k then some (s.cur, s.advance) else none
def APS.prev (s : APS) : PRes AToken :=
  if s.pos = 0 then .panic "token_list[self.pos-1]"
  else match s.toks[s.pos - 1]? with
    | some t => .ok t
    | none => .panic "token_list[self.pos-1]"
def APS.here (s : APS) : PRes AToken :=
  match s.toks[s.pos]? with
  | some t => .ok t
  | none => .panic "token_list[self.pos]"

abbrev AIt := AItem × APS

/-- `get_empty` -/
def getEmpty (s : APS) : Option AIt :=
  if !s.peek .star && !s.peek .emptySet then none
  else some (⟨.empty, tokPos s.cur⟩, s.advance)

/-- `get_replacement_term` (alias/parser.rs:110-123): note that a consumed `+` is not given back when no string follows -/
def getReplacementTerm (s : APS) : Option AIt × APS :=
  match getEmpty s with
  | some (x, s') => (some (x, s'), s')
  | none =>
    let (plus, s1) := s.expect .plus
    if !s1.peek .string then (none, s1)
    else (some (⟨.replacement s1.cur.value plus, tokPos s1.cur⟩, s1.advance), s1.advance)

/-- the loop of `get_replacements` -/
def replLoop : Nat → APS → List AItem → PRes (List AItem × APS)
  | 0, _, _ => .outOfFuel "get_replacements"
  | fuel + 1, s, acc =>
    let (cm, s1) := s.expect .comma
    if !cm then .ok (acc, s1)
    else
      match getReplacementTerm s1 with
      | (some (r, _), s2) => replLoop fuel s2 (acc ++ [r])
      | (none, s2) => .ok (acc, s2)

/-- `get_replacements` (alias/parser.rs:125-146) -/
def getReplacements (s : APS) : PRes (List AItem × APS) :=
  match getReplacementTerm s with
  | (some (r, _), s1) => replLoop (s.toks.length + 2) s1 [r]
  | (none, s1) =>
    match s1.here with
    | .ok t => .err ⟨"EmptyReplacements", [(t.start, t.start + 1)]⟩
    | .err e => .err e | .panic p => .panic p | .outOfFuel p => .outOfFuel p

def getSyllBound (s : APS) : Option AIt :=
  match s.eatExpect .syllBoundary with
  | some (t, s') => some (⟨.syllBound, tokPos t⟩, s')
  | none => none

def isFeature : ATK → Bool | .feature _ _ => true | _ => false

/-- `curr_token_to_modifier` + the `match ft` of `get_param_args` (alias/parser.rs:164-215): only `+`, `-` and a tone -/
def putArg (args : Modifiers) (t : AToken) (kind variant : String) : PRes Modifiers :=
  let bin : Option BinMod := if t.value = [43] then some .pos else if t.value = [45] then some .neg else none
  match bin with
  | some b =>
    if kind = "Node" then
      (match Parse.nodeIndex variant with
       | some i => .ok { args with nodes := args.nodes.set i (some (.bin b)) }
       | none => .panic "get_param_args: node")
    else if kind = "Feat" then
      (match Parse.featIndex variant with
       | some i => .ok { args with feats := args.feats.set i (some (.bin b)) }
       | none => .panic "get_param_args: feature")
    else
      (match variant with
       | "Long" => .ok { args with suprs := { args.suprs with long := some (.bin b) } }
       | "Overlong" => .ok { args with suprs := { args.suprs with overlong := some (.bin b) } }
       | "Stress" => .ok { args with suprs := { args.suprs with stress := some (.bin b) } }
       | "SecStress" => .ok { args with suprs := { args.suprs with secStress := some (.bin b) } }
       | _ => .panic "get_param_args: unreachable!(Tone cannot be +/-)")
  | none =>
    if kind = "Supr" && variant = "Tone" then
      if !t.value.isEmpty && t.value.all Lex.isDigit && ParseWord.digitsToNat t.value < 2 ^ 16 then
        .ok { args with suprs := { args.suprs with tone := some (ParseWord.digitsToNat t.value) } }
      else .panic "curr_token_to_modifier: value.parse().expect(\"value is ascii digit\")"
    else .panic "curr_token_to_modifier: unreachable!()"

/-- `get_param_args` (alias/parser.rs:182-222) -/
def getParamArgs : Nat → APS → Modifiers → PRes (Modifiers × APS)
  | 0, _, _ => .outOfFuel "get_param_args"
  | fuel + 1, s, args =>
    if !s.hasMore then .ok (args, s)
    else if s.cur.kind = .rightSquare then .ok (args, s.advance)
    else if s.cur.kind = .comma then getParamArgs fuel s.advance args
    else
      match s.cur.kind with
      | .feature kind variant =>
        (match putArg args s.cur kind variant with
         | .ok args' => getParamArgs fuel s.advance args'
         | .err e => .err e | .panic p => .panic p | .outOfFuel p => .outOfFuel p)
      | .eol => .err (tokErr "UnexpectedEol" s.cur)
      | _ => .err (tokErr "ExpectedTokenFeature" s.cur)

/-- `get_params` -/
def getParams (s : APS) : PRes ((Modifiers × Pos) × APS) := do
  let open_ ← s.prev
  let (args, s') ← getParamArgs (s.toks.length + 2) s Modifiers.empty
  let close ← s'.prev
  pure ((args, ⟨open_.start, close.stop⟩), s')

/-- the diacritic loop of `get_ipa` -/
def ipaDias (elm : Pos) : Nat → APS → Seg → PRes (Seg × APS)
  | 0, _, _ => .outOfFuel "get_ipa"
  | fuel + 1, s, seg =>
    match s.cur.kind with
    | .diacritic i =>
      let dia := s.cur
      let s' := s.advance
      match Gen.diacritics[i]? with
      | none => .panic "DIACRITS[*d as usize]"
      | some d =>
        match Parse.checkAndApplyDia seg d with
        | .ok (.ok seg') => ipaDias elm fuel s' seg'
        | .ok (.error (_, isNode)) =>
          .err ⟨if isNode then "DiacriticDoesNotMeetPreReqsNode" else "DiacriticDoesNotMeetPreReqsFeat", [(elm.start, elm.stop), (dia.start, dia.stop)]⟩
        | .err e => .err e | .panic p => .panic p | .outOfFuel p => .outOfFuel p
    | _ => .ok (seg, s)

/-- `get_ipa` (alias/parser.rs:233-272) -/
def getIpa (s : APS) : PRes ((Seg × Option Modifiers × Pos) × APS) :=
  match ParseWord.lookup s.cur.value with
  | none => .err (tokErr "UnknownIPA" s.cur)
  | some seg0 => do
    let pos := tokPos s.cur
    let (seg, s1) ← ipaDias pos (s.toks.length + 2) s.advance seg0
    let (colon, s2) := s1.expect .colon
    if !colon then do
      let p ← s2.prev
      pure ((seg, none, ⟨pos.start, p.stop⟩), s2)
    else
      let (sq, s3) := s2.expect .leftSquare
      if !sq then .err (tokErr "ExpectedMatrix" s3.cur)
      else do
        let ((params, ppos), s4) ← getParams s3
        pure ((seg, some params, ⟨pos.start, ppos.stop⟩), s4)

/-- `group_to_matrix` (alias/parser.rs:275-317) -/
def groupToMatrix (t : AToken) : PRes (Modifiers × Pos) :=
  match t.value with
  | [c] =>
    match Gen.aliasGroups.find? (·.1 = c) with
    | some (_, fs) =>
      .ok (fs.foldl (fun (m : Modifiers) (f : Nat × Bool) =>
          { m with feats := m.feats.set f.1 (some (.bin (if f.2 then .pos else .neg))) }) Modifiers.empty, tokPos t)
    | none => .err (tokErr "UnknownGroup" t)
  | _ => .err (tokErr "UnknownGroup" t)

/-- `join_group_with_params` -/
def joinGroup (c : Modifiers × Pos) (p : Modifiers × Pos) : Modifiers × Pos :=
  ({ nodes := List.zipWith Parse.orMod p.1.nodes c.1.nodes, feats := List.zipWith Parse.orMod p.1.feats c.1.feats,
     suprs := { stress := Parse.orMod p.1.suprs.stress c.1.suprs.stress, secStress := Parse.orMod p.1.suprs.secStress c.1.suprs.secStress,
                long := Parse.orMod p.1.suprs.long c.1.suprs.long, overlong := Parse.orMod p.1.suprs.overlong c.1.suprs.overlong,
                tone := if p.1.suprs.tone.isNone then c.1.suprs.tone else p.1.suprs.tone } },
   ⟨c.2.start, p.2.stop⟩)

/-- `get_group` -/
def getGroup (s : APS) : PRes ((Modifiers × Pos) × APS) := do
  let chr ← groupToMatrix s.cur
  let s1 := s.advance
  let (colon, s2) := s1.expect .colon
  if !colon then pure (chr, s2)
  else
    let (sq, s3) := s2.expect .leftSquare
    if !sq then .err (tokErr "ExpectedMatrix" s3.cur)
    else do
      let (params, s4) ← getParams s3
      pure (joinGroup chr params, s4)

/-- the loop of `get_segment` (alias/parser.rs:370-401): the segments, the first start and the last end -/
def segLoop : Nat → APS → List SegType → Option Nat → Nat → PRes ((List SegType × Option Nat × Nat) × APS)
  | 0, _, _, _, _ => .outOfFuel "get_segment"
  | fuel + 1, s, acc, start, stop =>
    if !s.hasMore then .ok ((acc, start, stop), s)
    else if s.peek .cardinal then
      (match getIpa s with
       | .ok ((seg, params, pos), s') => segLoop fuel s' (acc ++ [.ipa seg params]) (if start.isNone then some pos.start else start) pos.stop
       | .err e => .err e | .panic p => .panic p | .outOfFuel p => .outOfFuel p)
    else if s.peek .group then
      (match getGroup s with
       | .ok ((params, pos), s') => segLoop fuel s' (acc ++ [.matrix params]) (if start.isNone then some pos.start else start) pos.stop
       | .err e => .err e | .panic p => .panic p | .outOfFuel p => .outOfFuel p)
    else
      let (sq, s1) := s.expect .leftSquare
      if sq then
        (match getParams s1 with
         | .ok ((params, pos), s') => segLoop fuel s' (acc ++ [.matrix params]) (if start.isNone then some pos.start else start) pos.stop
         | .err e => .err e | .panic p => .panic p | .outOfFuel p => .outOfFuel p)
      else .ok ((acc, start, stop), s1)

/-- `get_segment` -/
def getSegment (s : APS) : PRes (Option AItem × APS) := do
  let ((segs, start, stop), s') ← segLoop (s.toks.length + 2) s [] none 0
  if segs.isEmpty then pure (none, s')
  else
    match start with
    | some st => pure (some ⟨.segments segs, ⟨st, stop⟩⟩, s')
    | none => .panic "get_segment: start.expect"

/-- `get_input_term` -/
def getInputTerm (s : APS) : PRes (Option AItem × APS) :=
  match getSyllBound s with
  | some (x, s') => pure (some x, s')
  | none => getSegment s

/-- the loop of `get_input` -/
def inputLoop : Nat → APS → List AItem → PRes (List AItem × APS)
  | 0, _, _ => .outOfFuel "get_input"
  | fuel + 1, s, acc =>
    let (cm, s1) := s.expect .comma
    if !cm then .ok (acc, s1)
    else
      match getInputTerm s1 with
      | .ok (some t, s2) => inputLoop fuel s2 (acc ++ [t])
      | .ok (none, s2) => .ok (acc, s2)
      | .err e => .err e | .panic p => .panic p | .outOfFuel p => .outOfFuel p

/-- `get_input` (alias/parser.rs:415-437) -/
def getInput (s : APS) : PRes (List AItem × APS) := do
  let (t, s1) ← getInputTerm s
  match t with
  | some x => inputLoop (s.toks.length + 2) s1 [x]
  | none =>
    let h ← s1.here
    .err ⟨"EmptyInput", [(h.start, h.start + 1)]⟩

/-- `expect(Arrow) || expect(GreaterThan)` -/
def expectArrow (s : APS) : Bool × APS :=
  let (a, s1) := s.expect .arrow
  if a then (true, s1) else s1.expect .greaterThan

/-- the pairing at the end of `get_deromaniser` / `get_romaniser` -/
def pairUp (ins outs : List AItem) : PRes (List Transformation) :=
  let mx := max ins.length outs.length
  let span (l : List AItem) : PErr :=
    match l.head?, l.getLast? with
    | some f, some t => ⟨"UnbalancedIO", [(f.pos.start, t.pos.stop)]⟩
    | _, _ => ⟨"UnbalancedIO", []⟩
  if ins.length != mx && ins.length != 1 then .err (span ins)
  else if outs.length != mx && outs.length != 1 then .err (span outs)
  else
    .ok ((List.range mx).map fun i =>
      ⟨if ins.length = 1 then ins.headD default else ins.getD i default,
       if outs.length = 1 then outs.headD default else outs.getD i default⟩)

/-- `get_deromaniser` / `get_romaniser` (alias/parser.rs:440-504) -/
def getLine (derom : Bool) (s : APS) : PRes (List Transformation) := do
  let (ins, s1) ← (if derom then getReplacements s else getInput s)
  let (a, s2) := expectArrow s1
  if !a then .err (tokErr "ExpectedArrow" s2.cur)
  else do
    let (outs, s3) ← (if derom then getInput s2 else getReplacements s2)
    let (e, s4) := s3.expect .eol
    if !e then .err (tokErr "ExpectedEndLine" s4.cur)
    else pairUp ins outs

/-- `AliasParser::new(kind, tokens, line).parse()` -/
def parse (derom : Bool) (toks : List AToken) : PRes (List Transformation) :=
  match toks with
  | [] => .panic "AliasParser::new: token_list[0]"
  | t :: _ => if t.kind = .eol then .ok [] else getLine derom { toks := toks, pos := 0, cur := t }

/-- lex then parse one alias line -/
def parseLine (derom : Bool) (src : Text) : PRes (List Transformation) :=
  match ALex.lexLine derom src with
  | .ok toks => parse derom toks
  | .err e => .err (Parse.ofLexErr e)
  | .panic p => .panic p
  | .outOfFuel p => .outOfFuel p

end AParse
end Asca
