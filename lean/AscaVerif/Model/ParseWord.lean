import AscaVerif.Model.Word
/-! `normalise` (lib.rs:154-183), `Word::new` / `setup` / `fill_segments` without custom aliases
    (word.rs:116-161, 261-540).  Errors are `WordSyntaxError` variant names. -/
namespace Asca
open Outcome

namespace ParseWord

/-- `normalise` -/
def normalise : Text → Text
  | [] => []
  | c :: cs =>
    (match c with
     | 0xE3 => [0x61, 0x303] | 0x1EBD => [0x65, 0x303] | 0x129 => [0x69, 0x303] | 0xF5 => [0x6F, 0x303]
     | 0x169 => [0x75, 0x303] | 0x1EF9 => [0x79, 0x303]
     | 0x25A => [0x259, 0x2DE] | 0x25D => [0x25C, 0x2DE]
     | 0xAB64 => [0x251] | 0x1DD => [0x259] | 0x2107 => [0x25B] | 0x210E => [0x68] | 0x210F => [0x127]
     | other => [other]) ++ normalise cs

/-- `to_ipa` (word.rs:138-161) -/
def toIpa : Nat → Nat
  | 0x53 => 0x283 | 0x5A => 0x292 | 0x43 => 0x255 | 0x47 => 0x262 | 0x4E => 0x274 | 0x42 => 0x299 | 0x52 => 0x280
  | 0x58 => 0x3C7 | 0x48 => 0x29C | 0x41 => 0x250 | 0x45 => 0x25B | 0x49 => 0x26A | 0x4F => 0x254 | 0x55 => 0x28A
  | 0x59 => 0x28F | 0x3C6 => 0x278 | 0x67 => 0x261 | 0x3F => 0x294 | 0x21 => 0x1C3
  | other => other

def isPrefixKey (buf : Text) : Bool := Gen.cardinals.any (fun (k, _) => buf.isPrefixOf k)
def lookup (buf : Text) : Option Seg := (Gen.cardinals.find? (fun (k, _) => k = buf)).map (·.2)

def isClick (c : Nat) : Bool := c == 0x298 || c == 0x1C0 || c == 0x1C1 || c == 0x1C3 || c == 0x203C || c == 0x1C2
def isContour (c : Nat) : Bool := c == 0x71 || c == 0x262 || c == 0x274 || c == 0x3C7 || c == 0x281

/-- the longest-match loop of `fill_segments` (word.rs:357-398): returns the buffer and the new index -/
def growBuffer (txt : Text) : Nat → Nat → Text → Text × Nat
  | 0, i, buf => (buf, i)
  | fuel + 1, i, buf =>
    match txt[i]? with
    | none => (buf, i)
    | some c =>
      if isPrefixKey (buf ++ [toIpa c]) then growBuffer txt fuel (i + 1) (buf ++ [toIpa c])
      else if c = 0x5E then
        if isPrefixKey (buf ++ [0x361]) then growBuffer txt fuel (i + 1) (buf ++ [0x361])
        else if isPrefixKey (buf ++ [0x35C]) then growBuffer txt fuel (i + 1) (buf ++ [0x35C])
        else
          match txt[i + 1]? with
          | some ch =>
            if isClick (toIpa ch) then growBuffer txt fuel (i + 1) buf
            else if isContour (toIpa ch) && (match buf.head? with | some h => isClick h | none => false) then growBuffer txt fuel (i + 1) buf
            else (buf, i)
          | none => (buf, i)
      else (buf, i)

inductive Step where
  | consumed (sy : Syll) (i : Nat) (cont : Bool)   -- Ok(true) = `continue`, Ok(false) falls through (same effect)

/-- `fill_segments` with no aliases: either a grapheme is pushed or a diacritic is applied to the last segment -/
def fillSegments (txt : Text) (i : Nat) (sy : Syll) : Res (Syll × Nat) :=
  match txt[i]? with
  | none => .panic "fill_segments: txt[*i]"
  | some c0 =>
    let first := [toIpa c0]
    if isPrefixKey first then
      let (buf, j) := growBuffer txt txt.length (i + 1) first
      match lookup buf with
      | some seg => .ok ({ sy with segs := sy.segs ++ [seg] }, j)
      | none =>
        let j' := j - 1
        let lastBuffer := buf.dropLast
        let maybe := if lastBuffer.isEmpty then (match buf.getLast? with | some lc => lookup [lc] | none => none) else lookup lastBuffer
        match maybe with
        | some seg => .ok ({ sy with segs := sy.segs ++ [seg] }, j')
        | none => .err "UnknownChar"
    else
      match Gen.diacritics.find? (fun d => d.chr = toIpa c0) with
      | some d =>
        match sy.segs.getLast? with
        | some s =>
          match s.matchDiaMods d.prereqNodes d.prereqFeats with
          | .ok none =>
            match s.applyDiaPayload d with
            | .ok s' => .ok ({ sy with segs := sy.segs.dropLast ++ [s'] }, i + 1)
            | .err e => .err e | .panic p => .panic p | .outOfFuel p => .outOfFuel p
          | .ok (some (_, false)) => .err "DiacriticDoesNotMeetPreReqsFeat"
          | .ok (some (_, true)) => .err "DiacriticDoesNotMeetPreReqsNode"
          | .err e => .err e | .panic p => .panic p | .outOfFuel p => .outOfFuel p
        | none => .err "DiacriticBeforeSegment"
      | none => .err "UnknownChar"

def takeDigits (txt : Text) : Nat → Nat → Text → Text × Nat
  | 0, i, acc => (acc, i)
  | fuel + 1, i, acc =>
    match txt[i]? with
    | some c => if Text.isAsciiDigit c then takeDigits txt fuel (i + 1) (acc ++ [c]) else (acc, i)
    | none => (acc, i)

def digitsToNat (t : Text) : Nat := t.foldl (fun acc c => acc * 10 + (c - 48)) 0

/-- the main loop of `setup` (word.rs:465-523); fuel = number of iterations allowed.  `fill` is `fill_segments`
    (with whatever deromanisers are in force). -/
def setupLoopWith (fill : Text → Nat → Syll → Res (Syll × Nat)) (txt : Text) : Nat → Nat → Syll → List Syll → Res (Syll × List Syll)
  | 0, i, sy, acc => if i < txt.length then .outOfFuel "setup" else .ok (sy, acc)
  | fuel + 1, i, sy, acc =>
    match txt[i]? with
    | none => .ok (sy, acc)
    | some c =>
      if c = 0x2CC || c = 0x2C8 then
        let acc' := if sy.segs.isEmpty then acc else acc ++ [sy]
        setupLoopWith fill txt fuel (i + 1) { segs := [], stress := if c = 0x2CC then .secondary else .primary, tone := 0 } acc'
      else if c = 0x2E || Text.isAsciiDigit c then
        if sy.segs.isEmpty then setupLoopWith fill txt fuel (i + 1) sy acc
        else if Text.isAsciiDigit c then
          let (digits, j) := takeDigits txt txt.length i []
          let nz := digits.filter (· ≠ 48)
          if nz.length > 4 then .err "ToneTooBig"
          else setupLoopWith fill txt fuel j { segs := [], stress := .unstressed, tone := 0 } (acc ++ [{ sy with tone := digitsToNat nz }])
        else setupLoopWith fill txt fuel (i + 1) { segs := [], stress := .unstressed, tone := 0 } (acc ++ [sy])
      else if c = 0x2D0 then
        match sy.segs.getLast? with
        | none => .err "NoSegmentBeforeColon"
        | some s => setupLoopWith fill txt fuel (i + 1) { sy with segs := sy.segs ++ [s] } acc
      else
        match fill txt i sy with
        | .ok (sy', j) => setupLoopWith fill txt fuel j sy' acc
        | .err e => .err e | .panic p => .panic p | .outOfFuel p => .outOfFuel p

def setupLoop : Text → Nat → Nat → Syll → List Syll → Res (Syll × List Syll) := setupLoopWith fillSegments

/-- the string rewrites of `Word::new` (word.rs:118-128) -/
def respell (t : Text) : Text :=
  [([0x27], [0x2C8]), ([0x2C], [0x2CC]), ([0x3A], [0x2D0]), ([0x3B], [0x2D0, 0x2E])].foldl (fun acc (p, r) => Text.replaceAll p r acc) t

def americanistIn (t : Text) : Text :=
  [([0xA2], [0x74, 0x361, 0x73]), ([0x19B], [0x74, 0x361, 0x26C]), ([0x3BB], [0x64, 0x361, 0x26E]), ([0x142], [0x26C]), ([0xF1], [0x272])].foldl
    (fun acc (p, r) => Text.replaceAll p r acc) t

/-- `Word::new(text, aliases)` -/
def parseWordWith (fill : Text → Nat → Syll → Res (Syll × Nat)) (text : Text) : Res Word :=
  let tNorm := respell text
  let tAmer := americanistIn tNorm
  match setupLoopWith fill tAmer (tAmer.length + 1) 0 { segs := [] } [] with
  | .ok (sy, acc) =>
    if sy.segs.isEmpty then
      if sy.tone ≠ 0 || sy.stress ≠ .unstressed then
        if sy.stress = .primary && (match acc.getLast? with | some l => !l.segs.isEmpty | none => false) then .err "CouldNotParseEjective"
        else .err "CouldNotParse"
      else .ok { sylls := acc, americanist := tAmer ≠ tNorm }
    else .ok { sylls := acc ++ [sy], americanist := tAmer ≠ tNorm }
  | .err e => .err e | .panic p => .panic p | .outOfFuel p => .outOfFuel p

/-- `Word::new(text, &[])` -/
def parseWord : Text → Res Word := parseWordWith fillSegments

/-- what `run` does to one word: `Word::new(normalise(w), &[])` -/
def parseInput (text : Text) : Res Word := parseWord (normalise text)

end ParseWord
end Asca
