import AscaVerif.Model.Interp.Input
/-! Environments: `match_before_env`, `match_after_env`, `match_contexts_and_exceptions` (subrule.rs:151-224),
    word-editing helpers with Rust's panic behaviour, `concat_tone`. -/
namespace Asca
namespace Interp

/-- the `while si < states.len()` loop shared by `match_before_env` / `match_after_env` -/
def envLoop : Nat → Word → List Item → Nat → SegPos → Bool → Bool → Bool → Bool → Binds → Res (Bool × Binds)
  | 0, _, _, _, _, _, _, _, _, _ => .outOfFuel "match_before_env / match_after_env"
  | fuel + 1, w, states, si, pos, fwd, insBefore, isContext, isMatch, b =>
    if si < states.length then do
      let r ← ctxMatch fuel w states si pos fwd insBefore b
      if !r.ok then
        if isContext then pure (false, r.b)
        else envLoop fuel w states (r.si + 1) r.pos fwd insBefore isContext false r.b
      else envLoop fuel w states (r.si + 1) r.pos fwd insBefore isContext isMatch r.b
    else .ok (isMatch, b)

/-- `match_before_env` (subrule.rs:151-170); `states` already reversed, `wRev` the reversed word -/
def matchBeforeEnv (fuel : Nat) (states : List Item) (wRev : Word) (pos : SegPos) (insBefore isContext : Bool) (b : Binds) : Res (Bool × Binds) :=
  envLoop fuel wRev states 0 (pos.increment wRev) false insBefore isContext (if isContext then true else !states.isEmpty) b

/-- `match_after_env` (subrule.rs:172-192) -/
def matchAfterEnv (fuel : Nat) (states : List Item) (w : Word) (pos : SegPos) (insBefore inc isContext : Bool) (b : Binds) : Res (Bool × Binds) :=
  envLoop fuel w states 0 (if inc then pos.increment w else pos) true insBefore isContext (if isContext then true else !states.isEmpty) b

/-- `get_contexts` / `get_exceptions` -/
def envsOf : Option Item → Res (List (List Item × List Item))
  | none => .ok []
  | some (.environment envs) => .ok envs
  | some _ => .panic "get_contexts: unreachable!()"

/-- one `for (bef, aft) in …` loop of `match_contexts_and_exceptions`: stops at the first environment that matches -/
def anyEnv (fuel : Nat) (w wRev : Word) (startPos endPos : SegPos) (inc isContext : Bool) :
    List (List Item × List Item) → Binds → Res (Bool × Binds)
  | [], b => .ok (false, b)
  | (bef, aft) :: rest, b => do
    let (okB, b1) ← (if bef.isEmpty then pure (true, b) else do
      let rp ← startPos.reversed w
      matchBeforeEnv fuel bef.reverse wRev rp false isContext b)
    if !okB then anyEnv fuel w wRev startPos endPos inc isContext rest b1
    else do
      let (okA, b2) ← (if aft.isEmpty then pure (true, b1) else matchAfterEnv fuel aft w endPos false inc isContext b1)
      if okA then pure (true, b2) else anyEnv fuel w wRev startPos endPos inc isContext rest b2

/-- `match_contexts_and_exceptions` (subrule.rs:194-224) -/
def matchContextsAndExceptions (fuel : Nat) (r : SubRule) (w : Word) (startPos endPos : SegPos) (inc : Bool) (b : Binds) : Res (Bool × Binds) := do
  let contexts ← envsOf r.context
  let exceptions ← envsOf r.except
  if contexts.isEmpty && exceptions.isEmpty then pure (true, b)
  else
    let wRev := w.reverse
    let (c, b1) ← (if contexts.isEmpty then pure (true, b) else anyEnv fuel w wRev startPos endPos inc true contexts b)
    let (e, b2) ← anyEnv fuel w wRev startPos endPos inc false exceptions b1
    pure (!e && c, b2)

/-! ## editing a word the way `Vec` / `VecDeque` do -/

def getSyll (w : Word) (i : Nat) (site : String) : Res Syll :=
  match w.sylls[i]? with | some σ => .ok σ | none => .panic site

def setSyll (w : Word) (i : Nat) (σ : Syll) : Word := { w with sylls := w.sylls.set i σ }

/-- `Vec::remove(i)` -/
def removeSyll (w : Word) (i : Nat) (site : String) : Res Word :=
  if i < w.sylls.length then .ok { w with sylls := w.sylls.eraseIdx i } else .panic site

/-- `Vec::insert(i, x)` -/
def insertSyll (w : Word) (i : Nat) (σ : Syll) (site : String) : Res Word :=
  if i ≤ w.sylls.length then .ok { w with sylls := w.sylls.take i ++ [σ] ++ w.sylls.drop i } else .panic site

/-- `segments[i] = s` -/
def setSegAt (w : Word) (p : SegPos) (s : Seg) (site : String) : Res Word := do
  let σ ← getSyll w p.si site
  if p.gi < σ.segs.length then pure (setSyll w p.si { σ with segs := σ.segs.set p.gi s }) else .panic site

/-- `VecDeque::remove(i)` (no panic when out of range) -/
def removeSegAt (σ : Syll) (i : Nat) : Syll := { σ with segs := σ.segs.eraseIdx i }

/-- split a syllable at `gi`: `while syll.segments.len() > gi { new.push_front(syll.pop_back()) }` -/
def splitAt (σ : Syll) (gi : Nat) : List Seg × List Seg := (σ.segs.take gi, σ.segs.drop gi)

/-- `concat_tone` (subrule.rs:2222-2264) -/
def concatTone (prev aft : Nat) : Nat :=
  if prev = aft then prev
  else if prev = 0 || aft = 0 then prev ||| aft
  else
    let digits (n : Nat) : List Nat := (Nat.toDigits 10 n).map (fun c => c.toNat - 48)
    let nums := (digits prev ++ digits aft)
    -- `dedup`: remove consecutive duplicates
    let dedup := nums.foldr (fun d acc => match acc with | x :: _ => if x = d then acc else d :: acc | [] => [d]) []
    let nums' :=
      if dedup.length > 4 then
        let first := dedup.headD 0
        let last := dedup.getLastD 0
        let mid :=
          if dedup.length = 5 && dedup[1]? = dedup[3]? then dedup.getD 2 0
          else
            let inner := (dedup.drop 1).dropLast
            (inner.foldl (· + ·) 0 % 256) / (dedup.length - 2)
        [first, mid, last]
      else dedup
    (nums'.foldl (fun acc e => acc * 10 + e) 0) % 65536

def mergeStress (a b : Stress) : Stress :=
  match a, b with
  | .primary, _ | _, .primary => .primary
  | .secondary, _ | _, .secondary => .secondary
  | .unstressed, .unstressed => .unstressed

end Interp
end Asca
