import AscaVerif.Model.Interp.Match
/-! Port of the input matchers of `subrule.rs` (1986-2220, 2350-2510). -/
namespace Asca
namespace Interp

/-- result of an input matcher: captures are only ever appended to (never truncated on backtracking, as in the code) -/
structure IR where
  ok : Bool
  caps : List MatchEl
  si : Nat
  pos : SegPos
  b : Binds

/-- advance over the rest of a long segment: `while seg_length > 1 { pos.increment(word); seg_length -= 1 }` -/
def skipRun (w : Word) (p : SegPos) : Res SegPos :=
  match w.segLen p with
  | .ok L => .ok (incN w (L - 1) p)
  | .err e => .err e | .panic s => .panic s | .outOfFuel s => .outOfFuel s

/-- `input_match_ipa` (subrule.rs:2395-2434): the position moves to the last copy of the run whether or not it matched -/
def inMatchIpa (w : Word) (caps : List MatchEl) (s : Seg) (mods : Option Modifiers) (pos : SegPos) (b : Binds) :
    Res (Bool × List MatchEl × SegPos × Binds) :=
  match w.segAt pos with
  | none => .panic "input_match_ipa: get_seg_at(pos).unwrap()"
  | some seg => do
    let (hit, b1) ← (match mods with
      | some m => matchModifiers w (joinMods s m) pos b
      | none => pure (s = seg, b))
    let p1 ← skipRun w pos
    pure (if hit then (true, caps ++ [.segment pos none], p1, b1) else (false, caps, p1, b1))

/-- `input_match_matrix` (subrule.rs:2488-2510) -/
def inMatchMatrix (w : Word) (caps : List MatchEl) (mods : Modifiers) (var : Option Nat) (pos : SegPos) (b : Binds) :
    Res (Bool × List MatchEl × SegPos × Binds) := do
  let (hit, b1) ← matchModifiers w mods pos b
  let p1 ← skipRun w pos
  if hit then
    match w.segAt pos with
    | none => .panic "input_match_matrix: get_seg_at(pos).unwrap()"
    | some seg =>
      let b2 := match var with | some v => b1.setVar v (.seg seg) | none => b1
      pure (true, caps ++ [.segment pos none], p1, b2)
  else pure (false, caps, p1, b1)

/-- `input_match_syll` (subrule.rs:2191-2220): increments the state index itself -/
def inMatchSyll (w : Word) (caps : List MatchEl) (si : Nat) (stress sec : Option ModKind) (tone : Option Nat) (var : Option Nat)
    (pos : SegPos) (b : Binds) : Res IR :=
  if w.inB pos && pos.gi == 0 then
    match w.sylls[pos.si]? with
    | none => .panic "input_match_syll: syllables[syll_index]"
    | some σ =>
      let (hit, al) := Match.matchStress b.alphas stress sec σ
      let b1 := { b with alphas := al }
      if !hit then .ok ⟨false, caps, si, pos, b1⟩
      else if (match tone with | some t => t != σ.tone | none => false) then .ok ⟨false, caps, si, pos, b1⟩
      else
        let b2 := match var with | some v => b1.setVar v (.syll σ) | none => b1
        .ok ⟨true, caps ++ [.syllable pos.si none], si + 1, { si := wadd pos.si 1, gi := 0 }, b2⟩
  else .ok ⟨false, caps, si, pos, b⟩

/-- `input_match_syll_var` (subrule.rs:2436-2473): increments the state index itself -/
def inMatchSyllVar (w : Word) (caps : List MatchEl) (si : Nat) (σm : Syll) (mods : Option Modifiers) (pos : SegPos) (b : Binds) : Res IR :=
  if pos.gi != 0 || w.outOfBounds pos then .ok ⟨false, caps, si, pos, b⟩
  else match w.sylls[pos.si]? with
    | none => .panic "input_match_syll_var: syllables[csi]"
    | some cur =>
      match mods with
      | some m =>
        let (hit, al) := Match.matchStress b.alphas m.suprs.stress m.suprs.secStress cur
        let b1 := { b with alphas := al }
        if !hit then .ok ⟨false, caps, si, pos, b1⟩
        else if (match m.suprs.tone with | some t => t != cur.tone | none => false) then .ok ⟨false, caps, si, pos, b1⟩
        else if cur.segs != σm.segs then .ok ⟨false, caps, si, pos, b1⟩
        else .ok ⟨true, caps ++ [.syllable pos.si none], si + 1, { si := wadd pos.si 1, gi := 0 }, b1⟩
      | none =>
        if cur != σm then .ok ⟨false, caps, si, pos, b⟩
        else .ok ⟨true, caps ++ [.syllable pos.si none], si + 1, { si := wadd pos.si 1, gi := 0 }, b⟩

/-- `input_match_var` (subrule.rs:2475-2486) -/
def inMatchVar (w : Word) (caps : List MatchEl) (si : Nat) (n : Nat) (mods : Option Modifiers) (pos : SegPos) (b : Binds) : Res IR := do
  let k ← varIndex n
  match b.getVar k with
  | some (.seg s) => do
    let (hit, caps1, p1, b1) ← inMatchIpa w caps s mods pos b
    pure (if hit then ⟨true, caps1, si, p1.increment w, b1⟩ else ⟨false, caps1, si, p1, b1⟩)
  | some (.syll σ) => inMatchSyllVar w caps si σ mods pos b
  | none => .err "UnknownVariable"

/-- replace the set index of the last capture: `captures.last_mut().unwrap().set_ind(Some(i))` -/
def setLastInd (caps : List MatchEl) (i : Nat) : Res (List MatchEl) :=
  match caps.getLast? with
  | none => .panic "input_match_set: captures.last_mut().unwrap()"
  | some l => .ok (caps.dropLast ++ [l.setInd (some i)])

/-- `input_match_set` (subrule.rs:2359-2393) -/
def inMatchSet (w : Word) : List Item → Nat → List MatchEl → Nat → SegPos → Binds → SegPos → Binds → Res IR
  | [], _, caps, si, pos, b, _, _ => .ok ⟨false, caps, si, pos, b⟩
  | s :: rest, i, caps, si, pos, b, pos0, b0 => do
    let r ← (match s with
      | .variable n mods => inMatchVar w caps si n mods pos b
      | .ipa seg mods => do
        let (hit, caps1, p1, b1) ← inMatchIpa w caps seg mods pos b
        pure (if hit then (⟨true, caps1, si, p1.increment w, b1⟩ : IR) else ⟨false, caps1, si, p1, b1⟩)
      | .matrix m v => do
        let (hit, caps1, p1, b1) ← inMatchMatrix w caps m v pos b
        pure (if hit then (⟨true, caps1, si, p1.increment w, b1⟩ : IR) else ⟨false, caps1, si, p1, b1⟩)
      | .syllable st c t v => inMatchSyll w caps si st c t v pos b
      | .syllBound =>
        pure (if pos.atSyllStart then (⟨true, caps ++ [.syllBound pos.si (some i)], si, pos, b⟩ : IR) else ⟨false, caps, si, pos, b⟩)
      | .wordBound => .err "WordBoundSetLocError"
      | _ => .panic "input_match_set: unreachable!()")
    if r.ok then do
      let caps' ← setLastInd r.caps i
      pure { r with caps := caps' }
    else inMatchSet w rest (i + 1) r.caps r.si pos0 b0 pos0 b0

mutual

/-- `input_match_item` (subrule.rs:2042-2082) -/
def inMatchItem : Nat → Word → List Item → List MatchEl → Nat → SegPos → Binds → Res IR
  | 0, _, _, _, _, _, _ => .outOfFuel "input_match_item"
  | fuel + 1, w, states, caps, si, pos, b =>
    match states[si]? with
    | none => .panic "input_match_item: states[*state_index]"
    | some st =>
      match st with
      | .variable n m => do
        let r ← inMatchVar w caps si n m pos b
        -- `*state_index = this_state + 1`: one input element is one state, whatever the callee did to the index
        pure (if r.ok then { r with si := si + 1 } else r)
      | .ipa s m => do
        let (hit, caps1, p1, b1) ← inMatchIpa w caps s m pos b
        pure (if hit then ⟨true, caps1, si + 1, p1.increment w, b1⟩ else ⟨false, caps1, si, p1, b1⟩)
      | .matrix m v => do
        let (hit, caps1, p1, b1) ← inMatchMatrix w caps m v pos b
        pure (if hit then ⟨true, caps1, si + 1, p1.increment w, b1⟩ else ⟨false, caps1, si, p1, b1⟩)
      | .set items => do
        let r ← inMatchSet w items 0 caps si pos b pos b
        pure (if r.ok then { r with si := si + 1 } else r)
      | .syllBound =>
        .ok (if pos.gi == 0 then ⟨true, caps ++ [.syllBound pos.si none], si + 1, pos, b⟩ else ⟨false, caps, si, pos, b⟩)
      | .syllable s c t v => inMatchSyll w caps si s c t v pos b
      | .struct items s c t v => inMatchStruct fuel w caps si items s c t v pos b
      | .ellipsis => inMatchEllipsis fuel w states caps si pos b
      | .optional _ _ _ | .environment _ | .emptySet | .wordBound | .metathesis => .panic "input_match_item: unreachable!()"

/-- `input_match_structure` (subrule.rs:2084-2145) -/
def inMatchStruct : Nat → Word → List MatchEl → Nat → List Item → Option ModKind → Option ModKind → Option Nat → Option Nat → SegPos → Binds → Res IR
  | 0, _, _, _, _, _, _, _, _, _, _ => .outOfFuel "input_match_structure"
  | fuel + 1, w, caps, si, items, stress, sec, tone, var, pos, b =>
    if items.isEmpty then inMatchSyll w caps si stress sec tone var pos b
    else if !(w.inB pos && pos.gi == 0) then .ok ⟨false, caps, si, pos, b⟩
    else match w.sylls[pos.si]? with
      | none => .panic "input_match_structure: syllables[cur_syll_index]"
      | some σ =>
        let (hit, al) := Match.matchStress b.alphas stress sec σ
        let b1 := { b with alphas := al }
        if !hit then .ok ⟨false, caps, si, pos, b1⟩
        else if (match tone with | some t => t != σ.tone | none => false) then .ok ⟨false, caps, si, pos, b1⟩
        else do
          let cur := pos.si
          let (hit2, p2, b2) ← inStructItems fuel w items 0 cur pos b1
          if !hit2 then pure ⟨false, caps, si, p2, b2⟩
          else if p2.gi != 0 then pure ⟨false, caps, si, p2, b2⟩
          else
            match var with
            | some v => pure ⟨true, caps ++ [.syllable cur none], si + 1, p2, b2.setVar v (.syll σ)⟩
            | none => pure ⟨true, caps ++ [.syllable cur none], si + 1, p2, b2⟩

/-- the item loop of `input_match_structure` (variables allowed, items never reversed) -/
def inStructItems : Nat → Word → List Item → Nat → Nat → SegPos → Binds → Res (Bool × SegPos × Binds)
  | 0, _, _, _, _, _, _ => .outOfFuel "input structure items"
  | fuel + 1, w, items, i, cur, pos, b =>
    match items[i]? with
    | none => .ok (true, pos, b)
    | some item =>
      if pos.si != cur then .ok (false, pos, b)
      else match item with
        | .ellipsis =>
          if i == items.length - 1 then .ok (true, { si := wadd pos.si 1, gi := 0 }, b)
          else do
            let r ← ellipsisStruct fuel w items i pos cur b
            pure (r.ok, r.pos, r.b)
        | .ipa s m => do
          let (hit, b1) ← ctxMatchIpa w s m pos b
          if hit then inStructItems fuel w items (i + 1) cur (pos.increment w) b1 else pure (false, pos, b1)
        | .matrix m v => do
          let (hit, p1, b1) ← ctxMatchMatrix w m v pos b
          if hit then inStructItems fuel w items (i + 1) cur p1 b1 else pure (false, p1, b1)
        | .variable n mods => do
          let k ← varIndex n
          match b.getVar k with
          | some (.seg s) => do
            let (hit, b1) ← ctxMatchIpa w s mods pos b
            if hit then inStructItems fuel w items (i + 1) cur (pos.increment w) b1 else pure (false, pos, b1)
          | some (.syll _) => .err "SyllVarInsideStruct"
          | none => .err "UnknownVariable"
        | .optional _ _ _ => .panic "input_match_structure: unimplemented!() (optional)"
        | _ => .panic "input_match_structure: unreachable!()"

/-- `input_match_ellipsis` (subrule.rs:2147-2189) -/
def inMatchEllipsis : Nat → Word → List Item → List MatchEl → Nat → SegPos → Binds → Res IR
  | 0, _, _, _, _, _, _ => .outOfFuel "input_match_ellipsis"
  | fuel + 1, w, states, caps, si, pos, b =>
    if si ≥ states.length then .ok ⟨true, caps, si, pos, b⟩
    else inEllipsisLoop fuel w states caps (si + 1) (pos.increment w) b

def inEllipsisLoop : Nat → Word → List Item → List MatchEl → Nat → SegPos → Binds → Res IR
  | 0, _, _, _, _, _, _ => .outOfFuel "input_match_ellipsis (loop)"
  | fuel + 1, w, states, caps, si, pos, b =>
    if !w.inB pos then .ok ⟨false, caps, si, pos, b⟩
    else do
      let r ← inSeq fuel w states caps si pos b
      if r.ok then pure r
      -- `captures.truncate(back_caps)`: a failed attempt leaves no captures behind
      else inEllipsisLoop fuel w states caps si (pos.increment w) b

/-- `while *state_index < states.len() { if past the end and not a boundary { m = false; break }
    if !input_match_item(..)? { m = false; break } }` -/
def inSeq : Nat → Word → List Item → List MatchEl → Nat → SegPos → Binds → Res IR
  | 0, _, _, _, _, _, _ => .outOfFuel "input sequence"
  | fuel + 1, w, states, caps, si, pos, b =>
    if si < states.length then
      -- past the end of the word only a boundary can match
      if !w.inB pos && !(match states[si]? with | some .syllBound => true | _ => false) then .ok ⟨false, caps, si, pos, b⟩
      else do
        let r ← inMatchItem fuel w states caps si pos b
        if !r.ok then pure r
        else inSeq fuel w states r.caps r.si r.pos r.b
    else .ok ⟨true, caps, si, pos, b⟩

end

/-- the scan loop of `input_match_at` (subrule.rs:1992-2029) -/
def inMatchAtLoop (input : List Item) : Nat → Word → SegPos → Option SegPos → Nat → List MatchEl → Binds →
    Res (List MatchEl × Option SegPos × Option SegPos × Bool × Binds)
  | 0, _, _, _, _, _, _ => .outOfFuel "input_match_at"
  | fuel + 1, w, cur, mb, si, caps, b =>
    -- loop ended without a full match; the word-final `$` is only granted when every state before the last has matched
    -- (`state_index == self.input.len() - 1`), so a partial match is reported as "had not begun"
    if !w.inB cur then .ok (caps, none, if si = input.length - 1 then mb else none, false, b)
    else do
      let r ← inMatchItem fuel w input caps si cur b
      if r.ok then
        if r.si > input.length - 1 then
          let cur' := if (match input.getLast? with | some .syllBound => true | _ => false) then r.pos.increment w else r.pos
          pure (r.caps, some cur', mb, true, r.b)
        else
          match mb with
          | some _ => inMatchAtLoop input fuel w r.pos mb r.si r.caps r.b
          | none =>
            match r.caps.getLast? with
            | none => .panic "input_match_at: captures.last().expect(\"\")"
            | some (.segment sp _) => inMatchAtLoop input fuel w r.pos (some sp) r.si r.caps r.b
            | some (.syllable sp _) | some (.syllBound sp _) => inMatchAtLoop input fuel w r.pos (some { si := sp, gi := 0 }) r.si r.caps r.b
      else
        match mb with
        | some x => inMatchAtLoop input fuel w (x.increment w) none 0 [] {}
        | none => inMatchAtLoop input fuel w (r.pos.increment w) none 0 [] {}

/-- `input_match_at` (subrule.rs:1986-2040): captures, the position to continue from, and the bindings -/
def inputMatchAt (fuel : Nat) (input : List Item) (w : Word) (start : SegPos) (b : Binds) :
    Res (List MatchEl × Option SegPos × Binds) := do
  let (caps, next, mb, full, b1) ← inMatchAtLoop input fuel w start none 0 [] b
  if full then pure (caps, next, b1)
  else match mb with
    | none => pure ([], none, b1)
    | some _ =>
      if (match input.getLast? with | some .syllBound => true | _ => false) then pure (caps ++ [.syllBound w.nsyll none], none, b1)
      else pure ([], none, b1)

end Interp
end Asca
