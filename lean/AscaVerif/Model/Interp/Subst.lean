import AscaVerif.Model.Interp.Insert
/-! `substitution` (subrule.rs:1304-1984). -/
namespace Asca
namespace Interp

/-- state of the substitution loop -/
structure SubSt where
  w : Word
  tlc : List Int            -- `total_len_change`, one entry per syllable of the *original* word (grown on `$` insertion)
  last : SegPos             -- `last_pos`
  b : Binds

def tlcGet (tlc : List Int) (i : Nat) (site : String) : Res Int :=
  match tlc[i]? with | some x => .ok x | none => .panic site

/-- adjust a captured position by the accumulated length change of its syllable (subrule.rs:1396-1400) -/
def adjust (tlc : List Int) (sp : SegPos) : Res SegPos := do
  let c ← tlcGet tlc sp.si "substitution: total_len_change[sp.syll_index]"
  pure (if c > 0 then { sp with gi := wadd sp.gi c.toNat } else if c < 0 then { sp with gi := wsub sp.gi (-c).toNat } else sp)

def tlcAdd (tlc : List Int) (i : Nat) (d : Int) : Res (List Int) := do
  let c ← tlcGet tlc i "substitution: total_len_change[sp.syll_index] += lc"
  pure (tlc.set i (c + d))

/-- the cursor bookkeeping after a one-for-one segment change (subrule.rs:1405-1414) -/
def bump (last : SegPos) (lc : Int) (inLen outLen stateIndex : Nat) : SegPos :=
  let l1 : SegPos := if lc > 0 then { last with gi := wadd last.gi lc.toNat } else last
  if inLen == outLen then (if stateIndex < inLen - 1 then { l1 with gi := wadd l1.gi 1 } else l1)
  else { l1 with gi := wadd l1.gi 1 }

/-- the same after an output matrix (subrule.rs:1426-1441): the cursor moves to the last copy of the resized run,
    `last_pos.seg_index += max(old_len + lc - 1, 0)` -/
def bumpRun (last : SegPos) (oldLen : Nat) (lc : Int) (inLen outLen stateIndex : Nat) : SegPos :=
  let l1 : SegPos := { last with gi := wadd last.gi (max ((oldLen : Int) + lc - 1) 0).toNat }
  if inLen == outLen then (if stateIndex < inLen - 1 then { l1 with gi := wadd l1.gi 1 } else l1)
  else { l1 with gi := wadd l1.gi 1 }

/-- replace a segment match by a whole syllable (subrule.rs:1334-1385, 1484-1527, 1603-1645) -/
def segToSyll (st : SubSt) (sp : SegPos) (ins : Syll) (stateIndex outLen : Nat) : Res (SubSt × Bool) := do
  let old ← getSyll st.w sp.si "substitution: syllables.get_mut(sp.syll_index).unwrap()"
  let finish (w : Word) (si : Nat) : Res SubSt := do
    let l0 : SegPos := { si := si, gi := 0 }
    let l1 ← (if stateIndex ≥ outLen - 1 then l0.decrement w else pure l0)
    pure { st with w := w, last := l1 }
  if old.segs.length ≤ 1 then do
    let s ← finish (setSyll st.w sp.si ins) (wadd sp.si 1)
    pure (s, true)                      -- `continue`
  else do
    let old1 := removeSegAt old sp.gi
    let (keep, moved) := splitAt old1 sp.gi
    let newSyll : Syll := { segs := moved, stress := old.stress, tone := old.tone }
    let (w1, adj) ← (if keep.isEmpty then pure (setSyll st.w sp.si ins, 0)
      else do
        let w1 ← insertSyll (setSyll st.w sp.si { old1 with segs := keep }) (sp.si + 1) ins "substitution: syllables.insert"
        pure (w1, 1))
    if !moved.isEmpty then do
      let w2 ← insertSyll w1 (sp.si + 1 + adj) newSyll "substitution: syllables.insert"
      let s ← finish w2 (wadd sp.si (2 + adj))
      pure (s, false)
    else do
      let s ← finish w1 (wadd sp.si (1 + adj))
      pure (s, false)

/-- `self.apply_seg_mods(word, pos, mods, var, ..)` (subrule.rs:1221-1229) -/
def applySegModsVar (w : Word) (pos : SegPos) (mods : Modifiers) (var : Option Nat) (b : Binds) : Res (Word × Int × Binds) := do
  let σ ← getSyll w pos.si "Word::apply_seg_mods: syllables[start_pos.syll_index]"
  let (σ', al, lc) ← σ.applySegMods b.alphas mods pos.gi
  let w' := setSyll w pos.si σ'
  let b1 := { b with alphas := al }
  match var with
  | none => pure (w', lc, b1)
  | some v =>
    match w'.segAt pos with
    | some s => pure (w', lc, b1.setVar v (.seg s))
    | none => .panic "apply_seg_mods: syllables[pos.syll_index].segments[pos.seg_index]"

/-- `self.apply_syll_mods(word, syll_index, mods, var, ..)` (subrule.rs:1212-1219) -/
def applySyllModsVar (w : Word) (si : Nat) (suprs : SupraSegs) (var : Option Nat) (b : Binds) : Res (Word × Binds) := do
  let σ ← getSyll w si "apply_syll_mods: syllables.get_mut(syll_index).unwrap()"
  let σ' ← σ.applySyllMods b.alphas suprs
  let w' := setSyll w si σ'
  pure (w', match var with | some v => b.setVar v (.syll σ') | none => b)

/-- write a segment (from an IPA literal of a set, or a segment variable) at an adjusted position, then its modifiers -/
def writeSeg (st : SubSt) (sp : SegPos) (seg : Seg) (mods : Option Modifiers) (inLen outLen stateIndex : Nat) : Res SubSt := do
  let w1 ← setSegAt st.w sp seg "substitution: syllables[sp.syll_index].segments[sp.seg_index] = seg"
  match mods with
  | none => pure { st with w := w1, last := bump sp 0 inLen outLen stateIndex }
  | some m => do
    let σ ← getSyll w1 sp.si "Word::apply_seg_mods: syllables[start_pos.syll_index]"
    let (σ', al, lc) ← σ.applySegMods st.b.alphas m sp.gi
    let tlc ← tlcAdd st.tlc sp.si lc
    pure { w := setSyll w1 sp.si σ', tlc := tlc, last := bump sp lc inLen outLen stateIndex, b := { st.b with alphas := al } }

/-- one (input element, output element) pair of the main loop of `substitution`; the Boolean is unused (every arm falls to the next pair) -/
def substStep (r : SubRule) (inLen outLen : Nat) (stateIndex : Nat) (inState outState : Item) (m : MatchEl) (st : SubSt) : Res SubSt :=
  match outState with
  | .syllable .. => .err "SubstitutionSyll"
  | .struct items stress sec tone var =>
    match m with
    | .syllable sp _ => do
      let (gen, b1) ← genSyllFromStruct items stress sec tone var false st.b
      let σ ← getSyll st.w sp "substitution: SyllPos is validated index"
      let w1 := setSyll st.w sp { σ with segs := gen.segs }
      let (w2, b2) ← applySyllModsVar w1 sp { stress := stress, secStress := sec, tone := tone } var b1
      let l0 : SegPos := { si := wadd sp 1, gi := 0 }
      let l1 ← (if stateIndex ≥ outLen - 1 then l0.decrement w2 else pure l0)
      pure { st with w := w2, last := l1, b := b2 }
    | .segment sp _ =>
      if items.isEmpty then .err "SubstitutionSyll"
      else do
        let (ins, b1) ← genSyllFromStruct items stress sec tone var false st.b
        let (s, _) ← segToSyll { st with b := b1 } sp ins stateIndex outLen
        pure s
    | .syllBound .. => .err "SubstitutionSyllBound"
  | .matrix mods v =>
    match m with
    | .segment sp0 _ => do
      let sp ← adjust st.tlc sp0
      let oldLen ← st.w.segLen sp
      let (w1, lc, b1) ← applySegModsVar st.w sp mods v st.b
      let tlc ← tlcAdd st.tlc sp.si lc
      pure { w := w1, tlc := tlc, last := bumpRun sp oldLen lc inLen outLen stateIndex, b := b1 }
    | .syllable sp _ => do
      let (w1, b1) ← applySyllModsVar st.w sp mods.suprs v st.b
      pure { st with w := w1, last := { si := sp, gi := 0 }, b := b1 }
    | .syllBound .. => .err "SubstitutionBoundMod"
  | .ipa seg mods =>
    match m with
    | .segment sp0 _ => do
      let sp ← adjust st.tlc sp0
      let σ ← getSyll st.w sp.si "substitution: syllables[sp.syll_index]"
      let (σ', al, lc) ← σ.replaceSegment st.b.alphas sp.gi seg mods
      let tlc ← tlcAdd st.tlc sp.si lc
      pure { w := setSyll st.w sp.si σ', tlc := tlc, last := bump sp lc inLen outLen stateIndex, b := { st.b with alphas := al } }
    | _ => .err "SubstitutionSylltoMatrix"
  | .variable num mods => do
    let k ← varIndex num
    match st.b.getVar k with
    | none => .err "UnknownVariable"
    | some var =>
      match m, var with
      | .segment sp0 _, .seg seg => do
        let sp ← adjust st.tlc sp0
        writeSeg st sp seg mods inLen outLen stateIndex
      | .syllable sp _, .syll σ => do
        if sp < st.w.sylls.length then
          let w1 := setSyll st.w sp σ
          let w2 ← (match mods with
            | some md => do let σ' ← σ.applySyllMods st.b.alphas md.suprs; pure (setSyll w1 sp σ')
            | none => pure w1)
          pure { st with w := w2, last := { si := wadd sp 1, gi := 0 } }
        else .panic "substitution: res_word.syllables[sp] = syll"
      | .segment sp _, .syll ins => do
        let (s, _) ← segToSyll st sp ins stateIndex outLen
        pure s
      | .syllBound .., .seg _ | .syllable .., .seg _ => .err "SubstitutionSylltoSeg"
      | .syllBound .., .syll _ => .err "SubstitutionSyllBound"
  | .set setOut =>
    match inState with
    | .set setIn =>
      if setIn.length != setOut.length then .err "UnevenSet"
      else
        match m with
        | .segment sp0 setIndex =>
          match setIndex with
          | none => .err "LonelySet"
          | some i => do
            let sp ← adjust st.tlc sp0
            let st0 := { st with last := sp }
            match setOut[i]? with
            | none => .panic "substitution: set_output[i]"
            | some (.ipa seg mods) => writeSeg st0 sp seg mods inLen outLen stateIndex
            | some (.matrix mods var) => do
              let (w1, lc, b1) ← applySegModsVar st.w sp mods var st.b
              let tlc ← tlcAdd st.tlc sp.si lc
              pure { w := w1, tlc := tlc, last := bump sp lc inLen outLen stateIndex, b := b1 }
            | some (.variable num mods) => do
              let k ← varIndex num
              match st.b.getVar k with
              | none => .err "UnknownVariable"
              | some (.seg seg) => writeSeg st0 sp seg mods inLen outLen stateIndex
              | some (.syll ins) => do
                let (s, _) ← segToSyll st0 sp ins stateIndex outLen
                pure s
            | some .syllBound | some (.syllable ..) => .err "SubstitutionSylltoSeg"
            | some .wordBound => .err "WordBoundSetLocError"
            | some _ => .panic "substitution: unreachable!() (set output)"
        | .syllable sp setIndex =>
          match setIndex with
          | none => .err "LonelySet"
          | some i =>
            let st0 := { st with last := { si := sp, gi := 0 } }
            match setOut[i]? with
            | none => .panic "substitution: set_output[i]"
            | some (.matrix mods var) => do
              let (w1, b1) ← applySyllModsVar st.w sp mods.suprs var st.b
              pure { st0 with w := w1, b := b1 }
            | some (.syllable stress sec tone var) => do
              let (w1, b1) ← applySyllModsVar st.w sp { stress := stress, secStress := sec, tone := tone } var st.b
              pure { st0 with w := w1, b := b1 }
            | some (.variable num mods) => do
              let k ← varIndex num
              match st.b.getVar k with
              | none => .err "UnknownVariable"
              | some (.syll σ) =>
                if sp < st.w.sylls.length then do
                  let w2 ← (match mods with
                    | some md => do let σ' ← σ.applySyllMods st.b.alphas md.suprs; pure (setSyll st.w sp σ')
                    | none => pure (setSyll st.w sp σ))
                  pure { st0 with w := w2 }
                else .panic "substitution: res_word.syllables[sp] = syll"
              | some (.seg _) => .err "SubstitutionSylltoMatrix"
            | some (.ipa ..) => .err "SubstitutionSylltoMatrix"
            | some .syllBound => .err "SubstitutionSylltoBound"
            | some .wordBound => .err "WordBoundSetLocError"
            | some _ => .panic "substitution: unreachable!() (set output)"
        | .syllBound sp setIndex =>
          match setIndex with
          | none => .err "LonelySet"
          | some i =>
            match setOut[i]? with
            | none => .panic "substitution: set_output[i]"
            | some .syllBound => .ok { st with last := { si := sp, gi := 0 } }
            | some _ => .err "SubstitutionSyllBound"
    | _ => .err "LonelySet"
  | .syllBound =>
    match m with
    | .syllBound .. => .ok st
    | _ => .err "SubstitutionSyllBound"
  | _ => .panic "substitution: unreachable!()"
  where _unused := r

/-- the zip loop `for (state_index, (in_state, out_state)) in input.iter().zip(output).enumerate()` -/
def substPairs (r : SubRule) (inLen outLen : Nat) : Nat → List Item → List Item → List MatchEl → SubSt → Res SubSt
  | _, [], _, _, st => .ok st
  | _, _, [], _, st => .ok st
  | i, inS :: ins, outS :: outs, caps, st =>
    match caps[i]? with
    | none => .panic "substitution: input[state_index]"
    | some m => do
      let st' ← substStep r inLen outLen i inS outS m st
      substPairs r inLen outLen (i + 1) ins outs caps st'

/-- the extra output elements, inserted after the last changed position (subrule.rs:1724-1905) -/
def substExtraOut : List Item → Word → List Int → SegPos → Binds → Res (Word × SegPos × Binds)
  | [], w, _, pos, b => .ok (w, pos, b)
  | z :: rest, w, tlc, pos, b =>
    match z with
    | .ipa seg mods => do
      let (w', p', b') ← insertSegAt w pos seg mods b
      substExtraOut rest w' tlc p' b'
    | .syllBound =>
      if pos.atSyllStart then substExtraOut rest w tlc pos b
      else do
        let σ ← getSyll w pos.si "substitution: syllables.get_mut(pos.syll_index).unwrap()"
        let (keep, moved) := splitAt σ pos.gi
        let w1 := setSyll w pos.si { σ with segs := keep }
        let w2 ← insertSyll w1 (pos.si + 1) { segs := moved } "substitution: syllables.insert"
        if pos.si + 1 ≤ tlc.length then
          substExtraOut rest w2 (tlc.take (pos.si + 1) ++ [0] ++ tlc.drop (pos.si + 1)) { si := wadd pos.si 1, gi := 0 } b
        else .panic "substitution: total_len_change.insert"
    | .syllable stress sec tone var =>
      if pos.atSyllStart then
        match w.sylls[pos.si]? with
        | some σ => do
          let σ' ← σ.applySyllMods b.alphas { stress := stress, secStress := sec, tone := tone }
          let b' := match var with | some v => b.setVar v (.syll σ') | none => b
          substExtraOut rest (setSyll w pos.si σ') tlc pos b'
        | none => substExtraOut rest w tlc pos b
      else do
        let ns ← ({ segs := [] } : Syll).applySyllMods b.alphas { stress := stress, secStress := sec, tone := tone }
        let σ ← getSyll w pos.si "substitution: pos should not be out of bounds"
        let (keep, moved) := splitAt σ pos.gi
        let w1 := setSyll w pos.si { σ with segs := keep }
        let w2 ← insertSyll w1 (pos.si + 1) { ns with segs := moved } "substitution: syllables.insert"
        let pos' : SegPos := { si := wadd pos.si 2, gi := 0 }
        match var with
        | some v =>
          match w2.sylls[pos'.si - 1]? with
          | some s => substExtraOut rest w2 tlc pos' (b.setVar v (.syll s))
          | none => .panic "substitution: syllables[pos.syll_index - 1]"
        | none => substExtraOut rest w2 tlc pos' b
    | .struct items stress sec tone var => do
      let (ins, b1) ← genSyllFromStruct items stress sec tone var true b
      let b2 := match var with | some v => b1.setVar v (.syll ins) | none => b1
      let (w', p') ← insertStructAt w pos ins false
      substExtraOut rest w' tlc p' b2
    | .variable num mods => do
      let k ← varIndex num
      match b.getVar k with
      | none => .err "UnknownVariable"
      | some (.seg seg) => do
        -- subrule.rs:1842-1866
        -- `tgt`: where the modifiers apply; `pos` itself unless the segment went to the end of the last syllable because `pos` is past the word
        let (w1, tgt) ← (if w.inB pos then do
            let σ ← getSyll w pos.si "substitution"
            pure (setSyll w pos.si { σ with segs := Syll.insertCopies σ.segs pos.gi seg 1 }, pos)
          else match w.sylls[pos.si]? with
            | some σ => pure (setSyll w pos.si { σ with segs := if pos.gi ≥ σ.segs.length then σ.segs ++ [seg] else Syll.insertCopies σ.segs pos.gi seg 1 }, pos)
            | none =>
              match w.sylls.getLast? with
              | some l => pure (setSyll w (w.sylls.length - 1) { l with segs := l.segs ++ [seg] }, ({ si := w.sylls.length - 1, gi := l.segs.length } : SegPos))
              | none => .panic "substitution: syllables.last_mut().unwrap()")
        let (w2, pos2, b2) ← (match mods with
          | none => pure (w1, pos, b)
          | some m => do
            let σ ← getSyll w1 tgt.si "Word::apply_seg_mods: syllables[start_pos.syll_index]"
            let (σ', al, lc) ← σ.applySegMods b.alphas m tgt.gi
            let p : SegPos := if lc > 0 then { pos with gi := wadd pos.gi lc.toNat } else if lc < 0 then { pos with gi := wsub pos.gi (-lc).toNat } else pos
            pure (setSyll w1 tgt.si σ', p, { b with alphas := al }))
        substExtraOut rest w2 tlc (if w2.inB pos2 then pos2.increment w2 else pos2) b2
      | some (.syll σ) => do
        let ns ← (match mods with | some m => σ.applySyllMods b.alphas m.suprs | none => pure σ)
        let (w', p') ← insertSyllVarAt w pos ns
        substExtraOut rest w' tlc p' b
    | .set _ => .err "LonelySet"
    | .matrix _ _ => .err "InsertionMatrix"
    | _ => .panic "substitution: unreachable!() (extra output)"

/-- deletion of one captured element, shared by `transform`'s Deletion arm and the tail of `substitution`
    (subrule.rs:691-747 and 1909-1972); `adjustSeg` applies `total_len_change` (substitution only) -/
def deleteEl (orig : Word) (z : MatchEl) (w : Word) (pos : SegPos) (tlc : Option (List Int)) : Res (Word × SegPos) :=
  match z with
  | .segment i0 _ => do
    let i ← (match tlc with | some t => adjust t i0 | none => pure i0)
    -- the word as it is NOW (after the repair of D8d): `res_word.syllables.get(i).map_or(true, |s| s.segments.len() <= 1)`
    let lastSeg : Bool := match w.syllLen i.si with | some l => decide (l ≤ 1) | none => true
    if w.sylls.length ≤ 1 && lastSeg then .err "DeletionOnlySeg"
    else do
      let σ ← getSyll w i.si "deletion: res_word.syllables[i.syll_index]"
      let σ' := removeSegAt σ i.gi
      let w1 := setSyll w i.si σ'
      let w2 ← (if σ'.segs.isEmpty then removeSyll w1 i.si "deletion: syllables.remove" else pure w1)
      let pos' : SegPos := match tlc with
        | some _ => if i.gi > 0 then { i with gi := i.gi - 1 } else i
        | none => i
      pure (w2, pos')
  | .syllable i _ =>
    if w.sylls.length ≤ 1 then .err "DeletionOnlySyll"
    else do
      let p ← ({ si := i, gi := 0 } : SegPos).decrement w
      let w' ← removeSyll w i "deletion: remove_syll"
      pure (w', p)
  | .syllBound i _ =>
    if w.sylls.length ≤ 1 then .err "DeletionOnlySyll"
    else if i == 0 || i ≥ w.sylls.length then .ok (w, pos)
    else do
      let p ← ({ si := i, gi := 0 } : SegPos).decrement w
      let a ← getSyll w (i - 1) "deletion: syllables[i-1]"
      let c ← getSyll w i "deletion: syllables[i]"
      let joined : Syll := { segs := a.segs ++ c.segs, stress := mergeStress a.stress c.stress, tone := concatTone a.tone c.tone }
      let w1 := setSyll w (i - 1) joined
      let w2 ← removeSyll w1 i "deletion: syllables.remove(i)"
      pure (w2, p)

def deleteEls (orig : Word) (tlc : Option (List Int)) : List MatchEl → Word → SegPos → Res (Word × SegPos)
  | [], w, pos => .ok (w, pos)
  | z :: zs, w, pos => do
    let (w', p') ← deleteEl orig z w pos tlc
    deleteEls orig tlc zs w' p'

/-- `substitution` (subrule.rs:1304-1984): returns the new word, the new `next_pos` (only overwritten when it was `Some`) and the bindings -/
def substitution (r : SubRule) (w : Word) (caps : List MatchEl) (next : Option SegPos) (b : Binds) : Res (Word × Option SegPos × Binds) := do
  let inLen := r.input.length
  let outLen := r.output.length
  let st0 : SubSt := { w := w, tlc := List.replicate w.sylls.length 0, last := { si := 0, gi := 0 }, b := b }
  let st ← substPairs r inLen outLen 0 r.input r.output caps st0
  let (w1, pos1, b1) ← (if outLen > inLen then substExtraOut (r.output.drop inLen) st.w st.tlc st.last st.b
    else if inLen > outLen then do
      let (w', p') ← deleteEls w (some st.tlc) (caps.drop (inLen - outLen)).reverse st.w st.last
      pure (w', p', st.b)
    else pure (st.w, st.last, st.b))
  let next' := match next with | some _ => some (pos1.increment w1) | none => none
  match w1.sylls.getLast? with
  | none => .panic "substitution: syllables.last_mut().unwrap()"
  | some l => pure ((if l.segs.isEmpty then { w1 with sylls := w1.sylls.dropLast } else w1), next', b1)

end Interp
end Asca
