import AscaVerif.Model.Interp.Types
/-! Port of the matchers of `subrule.rs`: suprasegmental / modifier matching (2512-2622) and the context matchers
    (226-621).  Every loop that the rule can prolong takes `fuel`; running out is the value `outOfFuel`. -/
namespace Asca


namespace Interp

/-- `Segment::as_modifiers` (seg.rs:282-306) -/
def asModifiers (s : Seg) : Modifiers :=
  let b (x : Bool) : Option ModKind := some (.bin (if x then .pos else .neg))
  { nodes := [b true, b true, b true, b s.place.isSome, b (s.isNodeSome (.sub .lab)), b (s.isNodeSome (.sub .cor)),
              b (s.isNodeSome (.sub .dor)), b (s.isNodeSome (.sub .phr))],
    feats := (List.range featCount).map fun i =>
      match featNodeMask? i with
      | some (n, f) => (s.getFeat n f).map (fun x => ModKind.bin (if x != 0#8 then .pos else .neg))
      | none => none,
    suprs := {} }

/-- overlay of `match_ipa_with_modifiers` (subrule.rs:2512-2524) -/
def joinMods (s : Seg) (mods : Modifiers) : Modifiers :=
  let j := asModifiers s
  { nodes := (j.nodes.zip mods.nodes).map (fun (a, m) => if m.isSome then m else a),
    feats := (j.feats.zip mods.feats).map (fun (a, m) => if m.isSome then m else a),
    suprs := mods.suprs }

/-- `match_supr_mod_seg` (subrule.rs:2542-2554) -/
def matchSuprModSeg (w : Word) (suprs : SupraSegs) (p : SegPos) (b : Binds) : Res (Bool × Binds) :=
  match w.sylls[p.si]? with
  | none => .panic "match_supr_mod_seg: syllables[syll_index]"
  | some σ =>
    let (ok1, al1) := Match.matchStress b.alphas suprs.stress suprs.secStress σ
    if !ok1 then .ok (false, { b with alphas := al1 })
    else
      let (ok2, al2) := Match.matchSegLength al1 suprs.long suprs.overlong (σ.segLengthAt p.gi)
      if !ok2 then .ok (false, { b with alphas := al2 })
      else match suprs.tone with
        | some t => .ok (t == σ.tone, { b with alphas := al2 })
        | none => .ok (true, { b with alphas := al2 })

/-- `match_modifiers` (subrule.rs:2526-2540) -/
def matchModifiers (w : Word) (mods : Modifiers) (p : SegPos) (b : Binds) : Res (Bool × Binds) :=
  match w.segAt p with
  | none => .panic "match_modifiers: Segment Position should be within bounds"
  | some seg => do
    let (ok, al) ← Match.matchSegMods seg b.alphas mods
    if !ok then pure (false, { b with alphas := al })
    else matchSuprModSeg w mods.suprs p { b with alphas := al }

/-- `context_match_ipa` (subrule.rs:1200-1210) -/
def ctxMatchIpa (w : Word) (s : Seg) (mods : Option Modifiers) (p : SegPos) (b : Binds) : Res (Bool × Binds) :=
  if w.outOfBounds p then .ok (false, b)
  else match w.segAt p with
    | none => .panic "context_match_ipa: get_seg_at"
    | some seg =>
      match mods with
      | some m => matchModifiers w (joinMods s m) p b
      | none => .ok (s = seg, b)

/-- `pos.increment(word)` `n` times -/
def incN (w : Word) : Nat → SegPos → SegPos
  | 0, p => p
  | n + 1, p => incN w n (p.increment w)

/-- `context_match_matrix` (subrule.rs:604-621) -/
def ctxMatchMatrix (w : Word) (mods : Modifiers) (var : Option Nat) (p : SegPos) (b : Binds) : Res (Bool × SegPos × Binds) :=
  if w.outOfBounds p then .ok (false, p, b)
  else do
    let (ok, b1) ← matchModifiers w mods p b
    if !ok then pure (false, p, b1)
    else
      match w.segAt p with
      | none => .panic "context_match_matrix: get_seg_at"
      | some seg =>
        let b2 := match var with | some v => b1.setVar v (.seg seg) | none => b1
        match w.segLen p with
        | .ok L => .ok (true, incN w L p, b2)
        | .err e => .err e | .panic s => .panic s | .outOfFuel s => .outOfFuel s

def revSyll (σ : Syll) : Syll := { σ with segs := σ.segs.reverse }

/-- `context_match_syll` (subrule.rs:574-602) -/
def ctxMatchSyll (w : Word) (stress sec : Option ModKind) (tone : Option Nat) (var : Option Nat) (p : SegPos) (fwd : Bool) (b : Binds) :
    Res (Bool × SegPos × Binds) :=
  if !p.atSyllStart then .ok (false, p, b)
  else if !w.inB p then .ok (false, p, b)
  else match w.sylls[p.si]? with
    | none => .panic "context_match_syll: syllables[syll_index]"
    | some σ =>
      let (ok, al) := Match.matchStress b.alphas stress sec σ
      let b1 := { b with alphas := al }
      if !ok then .ok (false, p, b1)
      else if (match tone with | some t => t != σ.tone | none => false) then .ok (false, p, b1)
      else
        let b2 := match var with | some v => b1.setVar v (.syll (if fwd then σ else revSyll σ)) | none => b1
        .ok (true, { si := wadd p.si 1, gi := 0 }, b2)

/-- `context_match_syll_var` (subrule.rs:538-572) -/
def ctxMatchSyllVar (w : Word) (σm : Syll) (mods : Option Modifiers) (p : SegPos) (fwd : Bool) (b : Binds) : Res (Bool × SegPos × Binds) :=
  if !p.atSyllStart then .ok (false, p, b)
  else if !w.inB p then .ok (false, p, b)
  else match w.sylls[p.si]? with
    | none => .panic "context_match_syll_var: syllables[syll_index]"
    | some cur =>
      let segsToMatch := if fwd then σm.segs else σm.segs.reverse
      match mods with
      | some m =>
        let (ok, al) := Match.matchStress b.alphas m.suprs.stress m.suprs.secStress cur
        let b1 := { b with alphas := al }
        if !ok then .ok (false, p, b1)
        else if (match m.suprs.tone with | some t => t != cur.tone | none => false) then .ok (false, p, b1)
        else if cur.segs != σm.segs then .ok (false, p, b1)
        else .ok (true, { si := wadd p.si 1, gi := 0 }, b1)
      | none =>
        if cur.segs != segsToMatch || cur.stress != σm.stress || cur.tone != σm.tone then .ok (false, p, b)
        else .ok (true, { si := wadd p.si 1, gi := 0 }, b)

/-- `vt.value.parse::<usize>().unwrap()` -/
def varIndex (n : Nat) : Res Nat := if n < U then .ok n else .panic "parse::<usize>().unwrap() on a variable number"

/-- result of a matcher that moves the state index, the position and the bindings -/
structure MR where
  ok : Bool
  si : Nat
  pos : SegPos
  b : Binds

mutual

/-- `context_match` (subrule.rs:226-258) -/
def ctxMatch : Nat → Word → List Item → Nat → SegPos → Bool → Bool → Binds → Res MR
  | 0, _, _, _, _, _, _, _ => .outOfFuel "context_match"
  | fuel + 1, w, states, si, pos, fwd, insBefore, b =>
    match states[si]? with
    | none => .panic "context_match: states[*state_index]"
    | some st =>
      match st with
      | .wordBound => .ok ⟨w.outOfBounds pos, si, pos, b⟩
      | .syllBound => .ok ⟨if insBefore then !pos.atWordStart && pos.atSyllStart else pos.atSyllStart, si, pos, b⟩
      | .ipa s m => do
        let (ok, b1) ← ctxMatchIpa w s m pos b
        pure (if ok then ⟨true, si, pos.increment w, b1⟩ else ⟨false, si, pos, b1⟩)
      | .matrix m v => do
        let (ok, p1, b1) ← ctxMatchMatrix w m v pos b
        pure ⟨ok, si, p1, b1⟩
      | .syllable s c t v =>
        if insBefore && pos.atWordStart then .ok ⟨false, si, pos, b⟩
        else do
          let (ok, p1, b1) ← ctxMatchSyll w s c t v pos fwd b
          pure ⟨ok, si, p1, b1⟩
      | .struct items s c t v =>
        if insBefore && pos.atWordStart then .ok ⟨false, si, pos, b⟩
        else do
          let (ok, p1, b1) ← ctxMatchStruct fuel w items s c t v pos fwd b
          pure ⟨ok, si, p1, b1⟩
      | .variable n mods => do
        let (ok, p1, b1) ← ctxMatchVar w n mods pos fwd b
        pure ⟨ok, si, p1, b1⟩
      | .set items => do
        let (ok, p1, b1) ← ctxMatchSet fuel w items pos fwd b pos b
        pure ⟨ok, si, p1, b1⟩
      | .optional opt mn mx => ctxMatchOption fuel w states si pos fwd opt mn mx b
      | .ellipsis => ctxMatchEllipsis fuel w states si pos fwd b
      | .emptySet | .metathesis | .environment _ => .panic "context_match: unreachable!()"

/-- `context_match_var` (subrule.rs:524-536) -/
def ctxMatchVar (w : Word) (n : Nat) (mods : Option Modifiers) (pos : SegPos) (fwd : Bool) (b : Binds) : Res (Bool × SegPos × Binds) := do
  let k ← varIndex n
  match b.getVar k with
  | some (.seg s) => do
    let (ok, b1) ← ctxMatchIpa w s mods pos b
    pure (if ok then (true, pos.increment w, b1) else (false, pos, b1))
  | some (.syll σ) => ctxMatchSyllVar w σ mods pos fwd b
  | none => .err "UnknownVariable"

/-- `while *state_index < states.len() { if !context_match(..)? { m = false; break } *state_index += 1 }` -/
def ctxSeq : Nat → Word → List Item → Nat → SegPos → Bool → Binds → Res MR
  | 0, _, _, _, _, _, _ => .outOfFuel "context sequence"
  | fuel + 1, w, states, si, pos, fwd, b =>
    if si < states.length then do
      let r ← ctxMatch fuel w states si pos fwd false b
      if !r.ok then pure ⟨false, r.si, r.pos, r.b⟩
      else ctxSeq fuel w states (r.si + 1) r.pos fwd r.b
    else .ok ⟨true, si, pos, b⟩

/-- `context_match_set` (subrule.rs:495-522); `pos0`/`b0` are the backups restored after a failed alternative -/
def ctxMatchSet : Nat → Word → List Item → SegPos → Bool → Binds → SegPos → Binds → Res (Bool × SegPos × Binds)
  | 0, _, _, _, _, _, _, _ => .outOfFuel "context_match_set"
  | _ + 1, _, [], pos, _, b, _, _ => .ok (false, pos, b)
  | fuel + 1, w, s :: rest, pos, fwd, b, pos0, b0 => do
    let (ok, p1, b1) ← (match s with
      | .variable n mods => ctxMatchVar w n mods pos fwd b
      | .ipa seg mods => do
        let (ok, b1) ← ctxMatchIpa w seg mods pos b
        pure (if ok then (true, pos.increment w, b1) else (false, pos, b1))
      | .matrix m v => ctxMatchMatrix w m v pos b
      | .syllable st c t v => ctxMatchSyll w st c t v pos fwd b
      | .wordBound => pure (w.outOfBounds pos, pos, b)
      | .syllBound => pure (pos.atSyllStart, pos, b)
      | _ => .panic "context_match_set: unimplemented!()")
    if ok then pure (true, p1, b1)
    else ctxMatchSet fuel w rest pos0 fwd b0 pos0 b0

/-- `context_match_structure` (subrule.rs:260-323) -/
def ctxMatchStruct : Nat → Word → List Item → Option ModKind → Option ModKind → Option Nat → Option Nat → SegPos → Bool → Binds →
    Res (Bool × SegPos × Binds)
  | 0, _, _, _, _, _, _, _, _, _ => .outOfFuel "context_match_structure"
  | fuel + 1, w, items, stress, sec, tone, var, pos, fwd, b =>
    if items.isEmpty then ctxMatchSyll w stress sec tone var pos fwd b
    else if !pos.atSyllStart then .ok (false, pos, b)
    else if !w.inB pos then .ok (false, pos, b)
    else match w.sylls[pos.si]? with
      | none => .panic "context_match_structure: syllables[syll_index]"
      | some σ =>
        let (ok, al) := Match.matchStress b.alphas stress sec σ
        let b1 := { b with alphas := al }
        if !ok then .ok (false, pos, b1)
        else if (match tone with | some t => t != σ.tone | none => false) then .ok (false, pos, b1)
        else do
          let items' := if fwd then items else items.reverse
          let cur := pos.si
          let (ok2, p2, b2) ← structItems fuel w items' 0 cur pos b1
          if !ok2 then pure (false, p2, b2)
          else if p2.gi != 0 then pure (false, p2, b2)
          else
            let b3 := match var with | some v => b2.setVar v (.syll (if fwd then σ else revSyll σ)) | none => b2
            pure (true, p2, b3)

/-- the `for (mut i, item) in items.iter().enumerate()` loop of `context_match_structure` / `input_match_structure` -/
def structItems : Nat → Word → List Item → Nat → Nat → SegPos → Binds → Res (Bool × SegPos × Binds)
  | 0, _, _, _, _, _, _ => .outOfFuel "structure items"
  | fuel + 1, w, items, i, cur, pos, b =>
    match items[i]? with
    | none => .ok (true, pos, b)
    | some item =>
      if pos.si != cur then .ok (false, pos, b)
      else match item with
        | .ellipsis =>
          if i == items.length - 1 then .ok (true, { si := wadd pos.si 1, gi := 0 }, b)
          else do
            let r ← ellipsisStruct fuel w items i pos cur b
            pure (r.ok, r.pos, r.b)
        | .ipa s m => do
          let (ok, b1) ← ctxMatchIpa w s m pos b
          if ok then structItems fuel w items (i + 1) cur (pos.increment w) b1 else pure (false, pos, b1)
        | .matrix m v => do
          let (ok, p1, b1) ← ctxMatchMatrix w m v pos b
          if ok then structItems fuel w items (i + 1) cur p1 b1 else pure (false, p1, b1)
        | .variable _ _ => .panic "context_match_structure: unimplemented!() (variable)"
        | _ => .panic "context_match_structure: unreachable!()"

/-- `context_match_ellipis_struct` (subrule.rs:325-379) -/
def ellipsisStruct : Nat → Word → List Item → Nat → SegPos → Nat → Binds → Res MR
  | 0, _, _, _, _, _, _ => .outOfFuel "context_match_ellipis_struct"
  | fuel + 1, w, items, index, pos, syllIndex, b =>
    if index ≥ items.length then .ok ⟨true, index, pos, b⟩
    else ellipsisStructOuter fuel w items (index + 1) (pos.increment w) syllIndex b

/-- the outer `while pos.syll_index == syll_index` loop -/
def ellipsisStructOuter : Nat → Word → List Item → Nat → SegPos → Nat → Binds → Res MR
  | 0, _, _, _, _, _, _ => .outOfFuel "context_match_ellipis_struct (outer loop)"
  | fuel + 1, w, items, index, pos, syllIndex, b =>
    if pos.si != syllIndex then .ok ⟨false, index, pos, b⟩
    else do
      let (r, ret) ← ellipsisStructInner fuel w items index pos syllIndex b
      if ret then pure r                      -- `return Ok(true)` from inside the inner loop
      else if r.ok then pure r                -- `if m { return Ok(true) }`
      else ellipsisStructOuter fuel w items index (pos.increment w) syllIndex b

/-- the inner `while *index < items.len()` loop; the Boolean says "returned from the function" -/
def ellipsisStructInner : Nat → Word → List Item → Nat → SegPos → Nat → Binds → Res (MR × Bool)
  | 0, _, _, _, _, _, _ => .outOfFuel "context_match_ellipis_struct (inner loop)"
  | fuel + 1, w, items, index, pos, syllIndex, b =>
    match items[index]? with
    | none => .ok (⟨true, index, pos, b⟩, false)
    | some item =>
      if pos.si != syllIndex then .ok (⟨false, index, pos, b⟩, false)
      else match item with
        | .ellipsis =>
          if index == items.length - 1 then .ok (⟨true, index, { si := wadd syllIndex 1, gi := 0 }, b⟩, true)
          else do
            let r ← ellipsisStruct fuel w items index pos syllIndex b
            if r.ok then pure (⟨true, r.si, { si := wadd syllIndex 1, gi := 0 }, r.b⟩, true)
            else pure (⟨false, r.si, r.pos, r.b⟩, false)
        | .ipa s m => do
          let (ok, b1) ← ctxMatchIpa w s m pos b
          if ok then ellipsisStructInner fuel w items (index + 1) (pos.increment w) syllIndex b1
          else pure (⟨false, index, pos, b1⟩, false)
        | .matrix m v => do
          let (ok, p1, b1) ← ctxMatchMatrix w m v pos b
          if ok then ellipsisStructInner fuel w items (index + 1) p1 syllIndex b1
          else pure (⟨false, index, p1, b1⟩, false)
        | .variable _ _ => .panic "context_match_ellipis_struct: unimplemented!() (variable)"
        | _ => .panic "context_match_ellipis_struct: unreachable!()"

/-- `context_match_ellipsis` (subrule.rs:381-414) -/
def ctxMatchEllipsis : Nat → Word → List Item → Nat → SegPos → Bool → Binds → Res MR
  | 0, _, _, _, _, _, _ => .outOfFuel "context_match_ellipsis"
  | fuel + 1, w, states, si, pos, fwd, b =>
    if si ≥ states.length then .ok ⟨true, si, pos, b⟩
    else ellipsisLoop fuel w states (si + 1) (pos.increment w) fwd b

/-- `while word.in_bounds(*pos)` of `context_match_ellipsis` -/
def ellipsisLoop : Nat → Word → List Item → Nat → SegPos → Bool → Binds → Res MR
  | 0, _, _, _, _, _, _ => .outOfFuel "context_match_ellipsis (loop)"
  | fuel + 1, w, states, si, pos, fwd, b =>
    if !w.inB pos then .ok ⟨false, si, pos, b⟩
    else do
      let r ← ctxSeq fuel w states si pos fwd b
      if r.ok then pure r
      else ellipsisLoop fuel w states si (pos.increment w) fwd b

/-- `match_opt_states` (subrule.rs:416-425) -/
def matchOptStates : Nat → Word → List Item → SegPos → Bool → Binds → Res (Bool × SegPos × Binds)
  | 0, _, _, _, _, _ => .outOfFuel "match_opt_states"
  | fuel + 1, w, opt, pos, fwd, b => do
    let r ← ctxSeq fuel w opt 0 pos fwd b
    pure (r.ok, r.pos, r.b)

/-- `context_match_option` (subrule.rs:427-493) -/
def ctxMatchOption : Nat → Word → List Item → Nat → SegPos → Bool → List Item → Nat → Nat → Binds → Res MR
  | 0, _, _, _, _, _, _, _, _, _ => .outOfFuel "context_match_option"
  | fuel + 1, w, states, si, pos, fwd, opt, mn, mx, b => do
    -- the mandatory `match_min` repetitions
    let (ok, p1, b1) ← optMin fuel w opt mn pos fwd b
    if !ok then pure ⟨false, si, pos, b⟩
    else
      let si1 := si + 1
      let r ← ctxSeq fuel w states si1 p1 fwd b1
      if r.ok then pure r
      else
        let maxIter := if mx == 0 then U - 1 else mx
        optMore fuel w states si1 opt mn maxIter p1 fwd b1 b1

/-- `while index < match_min { if !match_opt_states(..)? { restore; return false } index += 1 }` -/
def optMin : Nat → Word → List Item → Nat → SegPos → Bool → Binds → Res (Bool × SegPos × Binds)
  | 0, _, _, _, _, _, _ => .outOfFuel "context_match_option (minimum)"
  | _ + 1, _, _, 0, pos, _, b => .ok (true, pos, b)
  | fuel + 1, w, opt, n + 1, pos, fwd, b => do
    let (ok, p1, b1) ← matchOptStates fuel w opt pos fwd b
    if !ok then pure (false, p1, b1)
    else optMin fuel w opt n p1 fwd b1

/-- the retry loop `while index < max` (subrule.rs:469-491): note that the position is **not** restored after a
    failed attempt to match the remainder -/
def optMore : Nat → Word → List Item → Nat → List Item → Nat → Nat → SegPos → Bool → Binds → Binds → Res MR
  | 0, _, _, _, _, _, _, _, _, _, _ => .outOfFuel "context_match_option (retry loop)"
  | fuel + 1, w, states, backState, opt, index, maxIter, pos, fwd, b, backB =>
    if index < maxIter then do
      let (ok, p1, b1) ← matchOptStates fuel w opt pos fwd b
      if ok then
        let r ← ctxSeq fuel w states backState p1 fwd b1
        if r.ok then pure r
        else optMore fuel w states backState opt (index + 1) maxIter r.pos fwd backB backB
      else pure ⟨false, backState, p1, b1⟩
    else .ok ⟨false, backState, pos, b⟩

end

end Interp
end Asca
