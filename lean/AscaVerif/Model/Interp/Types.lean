import AscaVerif.Model.Word
/-! Interpreter data: `Item` (parser.rs `ParseElement`, positions dropped — only error *kinds* are modelled),
    `SegPos` with Rust's release-mode `usize` arithmetic (wrapping), match elements, binding tables. -/
namespace Asca
open Outcome

/-- `usize` arithmetic in the release profile wraps (no overflow checks). -/
def U : Nat := 2 ^ 64
def wadd (a b : Nat) : Nat := (a + b) % U
def wsub (a b : Nat) : Nat := (a + U - b % U) % U

inductive Item where
  | emptySet | wordBound | syllBound | ellipsis | metathesis
  | set (items : List Item)
  | ipa (s : Seg) (mods : Option Modifiers)
  | matrix (mods : Modifiers) (var : Option Nat)
  | syllable (stress sec : Option ModKind) (tone : Option Nat) (var : Option Nat)
  | struct (items : List Item) (stress sec : Option ModKind) (tone : Option Nat) (var : Option Nat)
  | optional (items : List Item) (min max : Nat)
  | environment (envs : List (List Item × List Item))
  /-- `Variable(token, mods)`: `num` is the token's digits as a number (`parse::<usize>().unwrap()` panics above 2^64-1) -/
  | variable (num : Nat) (mods : Option Modifiers)
  deriving Repr, Inhabited

inductive RuleType where | substitution | metathesis | deletion | insertion
  deriving DecidableEq, Repr, Inhabited

/-- `SubRule` (subrule.rs:49-57) without the binding tables (they are threaded explicitly) -/
structure SubRule where
  input : List Item
  output : List Item
  context : Option Item
  except : Option Item
  ruleType : RuleType
  deriving Repr, Inhabited

/-- `Rule` (rule.rs:73-78) -/
structure Rule where
  input : List (List Item)
  output : List (List Item)
  context : List Item
  except : List Item
  deriving Repr, Inhabited

structure SegPos where
  si : Nat
  gi : Nat
  deriving DecidableEq, Repr, Inhabited

inductive VarKind where | seg (s : Seg) | syll (σ : Syll)
  deriving DecidableEq, Repr, Inhabited

/-- the two binding tables of a `SubRule` -/
structure Binds where
  alphas : Alphas := []
  vars : List (Nat × VarKind) := []
  deriving Repr, Inhabited

def Binds.getVar (b : Binds) (n : Nat) : Option VarKind := (b.vars.find? (·.1 == n)).map (·.2)
def Binds.setVar (b : Binds) (n : Nat) (v : VarKind) : Binds := { b with vars := (n, v) :: b.vars.filter (·.1 != n) }

inductive MatchEl where
  | segment (p : SegPos) (set : Option Nat)
  | syllable (i : Nat) (set : Option Nat)
  | syllBound (i : Nat) (set : Option Nat)
  deriving DecidableEq, Repr, Inhabited

def MatchEl.setInd (m : MatchEl) (i : Option Nat) : MatchEl :=
  match m with
  | .segment p _ => .segment p i
  | .syllable p _ => .syllable p i
  | .syllBound p _ => .syllBound p i

namespace Word
def nsyll (w : Word) : Nat := w.sylls.length
def syllLen (w : Word) (si : Nat) : Option Nat := (w.sylls[si]?).map (·.segs.length)
/-- `out_of_bounds` (word.rs:890) -/
def outOfBounds (w : Word) (p : SegPos) : Bool := !w.inBounds p.si p.gi
def inB (w : Word) (p : SegPos) : Bool := w.inBounds p.si p.gi
def segAt (w : Word) (p : SegPos) : Option Seg := w.getSegAt p.si p.gi
/-- `seg_length_at` panics when the syllable index is out of range -/
def segLen (w : Word) (p : SegPos) : Res Nat := w.segLengthAt p.si p.gi
end Word

namespace SegPos

/-- `increment` (word.rs:43-56) -/
def increment (p : SegPos) (w : Word) : SegPos :=
  match w.syllLen p.si with
  | none => p
  | some len =>
    let gi := wadd p.gi 1
    if gi ≥ len then { si := wadd p.si 1, gi := 0 } else { p with gi := gi }

/-- `decrement` (word.rs:58-71); `syllables[..]` indexing panics when out of range -/
def decrement (p : SegPos) (w : Word) : Res SegPos :=
  if p.si > w.nsyll then
    let si := wsub w.nsyll 1
    match w.syllLen si with
    | some len => .ok { si := si, gi := wsub len 1 }
    | none => .panic "decrement: syllables[syll_index]"
  else if p.gi > 0 then .ok { p with gi := p.gi - 1 }
  else if p.si > 0 then
    match w.syllLen (p.si - 1) with
    | some len => .ok { si := p.si - 1, gi := wsub len 1 }
    | none => .panic "decrement: syllables[syll_index]"
  else .ok p

/-- `reversed` (word.rs:35-41) -/
def reversed (p : SegPos) (w : Word) : Res SegPos :=
  match w.syllLen p.si with
  | some len => .ok { si := wsub (wsub w.nsyll 1) p.si, gi := wsub (wsub len 1) p.gi }
  | none => .panic "reversed: syllables[syll_index]"

def atWordStart (p : SegPos) : Bool := p.si == 0 && p.gi == 0
def atSyllStart (p : SegPos) : Bool := p.gi == 0

/-- `at_word_end` (word.rs:77-79) -/
def atWordEnd (p : SegPos) (w : Word) : Res Bool :=
  if p.si == wsub w.nsyll 1 then
    match w.syllLen p.si with
    | some len => .ok (decide (p.gi ≥ wsub len 1))
    | none => .panic "at_word_end: syllables[syll_index]"
  else .ok false

/-- `at_syll_end` (word.rs:86-89) -/
def atSyllEnd (p : SegPos) (w : Word) : Bool :=
  match w.syllLen p.si with
  | some len => decide (p.gi ≥ wsub len 1)
  | none => false

end SegPos
end Asca
