import AscaVerif.Model.Interp.Env
/-! Insertion: `insertion_match_exceptions`, `insertion_match`, `insertion_between/after/before`, `insert`,
    `gen_syll_from_struct` (subrule.rs:811-1301). -/
namespace Asca
namespace Interp

/-- length named by an element's length modifiers in `gen_syll_from_struct` (subrule.rs:1245-1255) -/
def lengthOf (suprs : SupraSegs) (al : Alphas) : Res Nat :=
  match suprs.long, suprs.overlong with
  | none, none => .ok 1
  | none, some v => do let b ← v.asBool al; pure (if b then 3 else 1)
  | some l, none => do let b ← l.asBool al; pure (if b then 2 else 1)
  | some l, some v => do
    let bl ← l.asBool al
    let bv ← v.asBool al
    match bl, bv with
    | true, true => pure 3
    | true, false => pure 2
    | false, false => pure 1
    | false, true => .err "OverlongPosLongNeg"

/-- `gen_syll_from_struct` (subrule.rs:1231-1301) -/
def genSyllFromStruct (items : List Item) (stress sec : Option ModKind) (tone : Option Nat) (var : Option Nat) (isInserting : Bool) (b : Binds) :
    Res (Syll × Binds) := do
  let σ0 ← ({ segs := [] } : Syll).applySyllMods b.alphas { stress := stress, secStress := sec, tone := tone }
  let rec go : List Item → Syll → Binds → Res (Syll × Binds)
    | [], σ, b => .ok (σ, b)
    | item :: rest, σ, b =>
      match item with
      | .ellipsis => .err (if isInserting then "InsertionEllipsis" else "SubstitutionEllipsis")
      | .matrix _ _ => .err (if isInserting then "InsertionMatrix" else "SubstitutionMatrix")
      | .ipa seg mods =>
        match mods with
        | none => go rest { σ with segs := σ.segs ++ [seg] } b
        | some m => do
          let (seg', al) ← seg.applySegMods b.alphas m.nodes m.feats false
          let n ← lengthOf m.suprs al
          go rest { σ with segs := σ.segs ++ List.replicate n seg' } { b with alphas := al }
      | .variable num mods => do
        let k ← varIndex num
        match b.getVar k with
        | some (.syll _) => .err "SyllVarInsideStruct"
        | some (.seg seg) =>
          match mods with
          | none => go rest { σ with segs := σ.segs ++ [seg] } b
          | some m => do
            let (seg', al) ← seg.applySegMods b.alphas m.nodes m.feats false
            let n ← lengthOf m.suprs al
            go rest { σ with segs := σ.segs ++ List.replicate n seg' } { b with alphas := al }
        | none => go rest σ b
      | _ => .panic "gen_syll_from_struct: unreachable!()"
  let (σ1, b1) ← go items σ0 b
  let b2 := match var with | some v => b1.setVar v (.syll σ1) | none => b1
  pure (σ1, b2)

/-- the four environment sides an insertion rule uses, or the error the code raises (subrule.rs:757-772, 855-870) -/
def insertionEnvs (r : SubRule) : Res ((List Item × List Item) × (List Item × List Item)) := do
  let context ← envsOf r.context
  let exceptions ← envsOf r.except
  let envs ← (match context, exceptions with
    | [c], [] => pure (c, ([], []))
    | [c], [e] => pure (c, e)
    | [], [e] => pure (([], []), e)
    | [], [] => .err "InsertionNoEnv"
    | _ :: _ :: _, _ => .err "InsertionGroupedEnv"
    | _, _ => .err "InsertionGroupedEnv")
  let ((bc, ac), (be, ae)) := envs
  if bc.isEmpty && ac.isEmpty && be.isEmpty && ae.isEmpty then .err "InsertionNoEnv" else pure envs

/-- `insertion_match_exceptions` (subrule.rs:811-852) -/
def insertionMatchExceptions (fuel : Nat) (r : SubRule) (w : Word) (insPos : SegPos) (b : Binds) : Res (Bool × Binds) := do
  let exceptions ← envsOf r.except
  let (bef, aft) ← (match exceptions with
    | [] => pure (([] : List Item), ([] : List Item))
    | [e] => pure e
    | _ => .err "InsertionGroupedEnv")
  let befR := bef.reverse
  match befR.isEmpty, aft.isEmpty with
  | true, true => pure (false, b)
  | false, true => do
    let rp ← insPos.reversed w
    matchBeforeEnv fuel befR w.reverse rp false false b
  | true, false => do
    let atEnd ← insPos.atWordEnd w
    if aft.length == 1 && (match aft.head? with | some .wordBound => true | _ => false) && !atEnd then pure (false, b)
    else matchAfterEnv fuel aft w insPos true false false b
  | false, false => do
    let rp ← insPos.reversed w
    let (mb, b1) ← matchBeforeEnv fuel befR w.reverse rp false false b
    let (ma, b2) ← matchAfterEnv fuel aft w insPos false false false b1
    pure (mb && ma, b2)

def lastIs (states : List Item) (p : Item → Bool) : Bool := match states.getLast? with | some x => p x | none => false
def firstIs (states : List Item) (p : Item → Bool) : Bool := match states.head? with | some x => p x | none => false
def isWordBound : Item → Bool | .wordBound => true | _ => false
def isSyllBound : Item → Bool | .syllBound => true | _ => false
def isStruct : Item → Bool | .struct .. => true | _ => false
def isSyllable : Item → Bool | .syllable .. => true | _ => false

/-- end-of-word position `(last syllable, its length)` used by the fall-backs of `insertion_after/before` -/
def endOfWord (w : Word) : Res SegPos :=
  let sy := wsub w.nsyll 1
  match w.syllLen sy with
  | some sg => .ok { si := sy, gi := sg }
  | none => .panic "insertion fall-back: word.syllables[sy]"

/-- the scan loop of `insertion_after` (subrule.rs:935-957) -/
def insertionAfterLoop : Nat → Word → List Item → SegPos → Nat → Option SegPos → Binds → Res (Option SegPos × Option SegPos × Bool × Binds)
  | 0, _, _, _, _, _, _ => .outOfFuel "insertion_after"
  | fuel + 1, w, states, cur, si, mb, b =>
    if !w.inB cur then .ok (none, mb, false, b)
    else do
      let r ← ctxMatch fuel w states si cur true false b
      if r.ok then
        if r.si ≥ states.length - 1 then pure (some r.pos, mb, true, r.b)
        else insertionAfterLoop fuel w states r.pos (r.si + 1) (if mb.isNone then some r.pos else mb) r.b
      else
        match mb with
        | some m => insertionAfterLoop fuel w states (m.increment w) 0 none {}
        | none => insertionAfterLoop fuel w states (r.pos.increment w) 0 none {}

/-- `insertion_after` (subrule.rs:919-970) -/
def insertionAfter (fuel : Nat) (states : List Item) (w : Word) (start : SegPos) (b : Binds) : Res (Option SegPos × Binds) :=
  match states.head? with
  | none => .panic "insertion_after: states[0]"
  | some first =>
    let go (si0 : Nat) : Res (Option SegPos × Binds) := do
      let (res, mb, found, b1) ← insertionAfterLoop fuel w states start si0 none b
      if found then pure (res, b1)
      else if mb.isNone then
        if lastIs states isSyllBound then do let e ← endOfWord w; pure (some e, b1) else pure (none, b1)
      else pure (none, b1)
    if isWordBound first then
      if !start.atWordStart then .ok (none, b)
      else if states.length == 1 then .ok (some start, b)
      else go 1
    else go 0

/-- the scan loop of `insertion_before` (subrule.rs:978-1006) -/
def insertionBeforeLoop : Nat → Word → List Item → SegPos → Nat → Option SegPos → Binds → Res (Option SegPos × Bool × Binds)
  | 0, _, _, _, _, _, _ => .outOfFuel "insertion_before"
  | fuel + 1, w, states, cur, si, mb, b =>
    if !w.inB cur then .ok (mb, false, b)
    else do
      let r ← ctxMatch fuel w states si cur true true b
      if r.ok then
        let mbR : Res (Option SegPos) := (match mb with
          | some m => pure (some m)
          | none =>
            if firstIs states (fun x => isSyllable x || isSyllBound x) then do
              let d ← cur.decrement w
              pure (some { d with gi := wadd d.gi 1 })
            else pure (some cur))
        let mb' ← mbR
        if r.si ≥ states.length - 1 then pure (mb', true, r.b)
        else insertionBeforeLoop fuel w states r.pos (r.si + 1) mb' r.b
      else
        match mb with
        | some m => insertionBeforeLoop fuel w states (m.increment w) 0 none {}
        | none => insertionBeforeLoop fuel w states (r.pos.increment w) 0 none {}

/-- `insertion_before` (subrule.rs:972-1019) -/
def insertionBefore (fuel : Nat) (states : List Item) (w : Word) (start : SegPos) (b : Binds) : Res (Option SegPos × Binds) := do
  if states.isEmpty then .panic "insertion_before: states.first().unwrap()" else
  let (mb, found, b1) ← insertionBeforeLoop fuel w states start 0 none b
  if found then pure (mb, b1)
  else if mb.isNone then
    if firstIs states (fun x => isWordBound x || isSyllBound x || isStruct x) then do let e ← endOfWord w; pure (some e, b1)
    else pure (none, b1)
  else pure (none, b1)

/-- `insertion_between` (subrule.rs:882-917) -/
def insertionBetween : Nat → List Item → List Item → Word → SegPos → Binds → Res (Option SegPos × Binds)
  | 0, _, _, _, _, _ => .outOfFuel "insertion_between"
  | fuel + 1, bef, aft, w, start, b =>
    if !w.inB start then .ok (none, b)
    else do
      let (r, b1) ← insertionAfter fuel bef w start b
      match r with
      | none => pure (none, b1)
      | some insPos =>
        let rs ← ctxSeqNoBreak fuel w aft 0 insPos b1
        if rs.ok then
          let insPos' : Res SegPos :=
            if firstIs aft (fun x => isSyllBound x || isStruct x) && insPos.atSyllStart then do
              let d ← insPos.decrement w
              pure { d with gi := wadd d.gi 1 }
            else pure insPos
          let ip ← insPos'
          pure (some ip, rs.b)
        else
          match bef.getLast? with
          | some .wordBound => pure (none, rs.b)
          | some .syllBound => insertionBetween fuel bef aft w (insPos.increment w) rs.b
          | some _ => insertionBetween fuel bef aft w insPos rs.b
          | none => .panic "insertion_between: bef_states.last().unwrap()"
where
  /-- `while state_index < aft_states.len() { if !context_match(..)? { continue 'outer } state_index += 1 }` -/
  ctxSeqNoBreak (fuel : Nat) (w : Word) (aft : List Item) (si : Nat) (pos : SegPos) (b : Binds) : Res MR := ctxSeq fuel w aft si pos true b

/-- `insertion_match` (subrule.rs:854-880) -/
def insertionMatch (fuel : Nat) (r : SubRule) (w : Word) (start : SegPos) (b : Binds) : Res (Option SegPos × Binds) := do
  let ((bc, ac), _) ← insertionEnvs r
  match bc.isEmpty, ac.isEmpty with
  | true, true => pure (some start, b)
  | false, true => insertionAfter fuel bc w start b
  | true, false => insertionBefore fuel ac w start b
  | false, false => insertionBetween fuel bc ac w start b

/-- insert a segment at `pos` (subrule.rs:1026-1042, 1141-1156): the shared code of the `Ipa` and segment-variable arms of `insert` -/
def insertSegAt (w : Word) (pos : SegPos) (seg : Seg) (mods : Option Modifiers) (b : Binds) : Res (Word × SegPos × Binds) :=
  match w.sylls[pos.si]? with
  | some σ => do
    let (σ', al, lc) ← σ.insertSegment b.alphas pos.gi seg mods
    let pos1 : SegPos := if lc > 0 then { pos with gi := wadd pos.gi lc.toNat } else pos
    let w' := setSyll w pos.si σ'
    pure (w', pos1.increment w', { b with alphas := al })
  | none =>
    match w.sylls.getLast? with
    | none => .panic "insert: syllables.last_mut().unwrap()"
    | some last => do
      let w1 := setSyll w (w.sylls.length - 1) { last with segs := last.segs ++ [seg] }
      match mods with
      | none => pure (w1, pos.increment w1, b)
      | some m =>
        -- `pos` is past the end of the word: the modifiers apply where the segment went, at the end of the last syllable
        let tgt : SegPos := { si := w1.sylls.length - 1, gi := last.segs.length }
        match w1.sylls[tgt.si]? with
        | none => .panic "insert: Word::apply_seg_mods: syllables[start_pos.syll_index]"
        | some σ => do
          let (σ', al, lc) ← σ.applySegMods b.alphas m tgt.gi
          let pos1 : SegPos := if lc > 0 then { pos with gi := wadd pos.gi lc.toNat } else pos
          let w2 := setSyll w1 tgt.si σ'
          pure (w2, pos1.increment w2, { b with alphas := al })

/-- insert a whole syllable `ins` at `pos` (subrule.rs:1103-1135 / 1807-1837): the `Structure` arm -/
def insertStructAt (w : Word) (pos : SegPos) (ins : Syll) (resetGi : Bool) : Res (Word × SegPos) :=
  if pos.atSyllStart then do
    let w' ← insertSyll w pos.si ins "insert: syllables.insert(pos.syll_index, ..)"
    pure (w', { si := wadd pos.si 1, gi := if resetGi then 0 else pos.gi })
  else do
    let old ← getSyll w pos.si "insert: pos should not be out of bounds"
    let (keep, moved) := splitAt old pos.gi
    let newSyll : Syll := { segs := moved, stress := old.stress, tone := old.tone }
    let (w1, adj) ← (if keep.isEmpty then pure (setSyll w pos.si ins, 0)
      else do
        let w1 ← insertSyll (setSyll w pos.si { old with segs := keep }) (pos.si + 1) ins "insert: syllables.insert"
        pure (w1, 1))
    if !moved.isEmpty then do
      let w2 ← insertSyll w1 (pos.si + 1 + adj) newSyll "insert: syllables.insert"
      pure (w2, { si := wadd pos.si (2 + adj), gi := 0 })
    else pure (w1, { si := wadd pos.si (1 + adj), gi := 0 })

/-- insert a syllable variable at `pos` (subrule.rs:1157-1178) -/
def insertSyllVarAt (w : Word) (pos : SegPos) (ins : Syll) : Res (Word × SegPos) :=
  if pos.atSyllStart then do
    let w' ← insertSyll w pos.si ins "insert: syllables.insert(pos.syll_index, ..)"
    pure (w', { pos with si := wadd pos.si 1 })
  else do
    let bef ← getSyll w pos.si "insert: syllables.get_mut(pos.syll_index).unwrap()"
    let (keep, moved) := splitAt bef pos.gi
    let w1 := setSyll w pos.si { bef with segs := keep }
    let w2 ← insertSyll w1 (pos.si + 1) { segs := moved } "insert: syllables.insert"
    let w3 ← insertSyll w2 (pos.si + 1) ins "insert: syllables.insert"
    pure (w3, { si := wadd pos.si 3, gi := 0 })

/-- `insert` (subrule.rs:1021-1198) -/
def insert (r : SubRule) (w : Word) (pos : SegPos) (isContextAfter : Bool) (b : Binds) : Res (Word × Option SegPos × Binds) :=
  let rec go : List Item → Word → SegPos → Binds → Res (Word × SegPos × Binds)
    | [], w, pos, b => .ok (w, pos, b)
    | st :: rest, w, pos, b =>
      match st with
      | .ipa seg mods => do
        let (w', p', b') ← insertSegAt w pos seg mods b
        go rest w' p' b'
      | .syllBound =>
        if pos.atSyllStart then go rest w pos b
        else do
          let first ← getSyll w pos.si "insert: syllables.get_mut(pos.syll_index).unwrap()"
          let (keep, moved) := splitAt first pos.gi
          let w1 := setSyll w pos.si { first with segs := keep }
          let w2 ← insertSyll w1 (pos.si + 1) { segs := moved } "insert: syllables.insert"
          go rest w2 { si := wadd pos.si 1, gi := 0 } b
      | .syllable stress sec tone var =>
        if pos.atSyllStart then
          match w.sylls[pos.si]? with
          | some σ => do
            let σ' ← σ.applySyllMods b.alphas { stress := stress, secStress := sec, tone := tone }
            let w' := setSyll w pos.si σ'
            let b' := match var with | some v => b.setVar v (.syll σ') | none => b
            go rest w' pos b'
          | none => go rest w pos b
        else do
          let ns ← ({ segs := [] } : Syll).applySyllMods b.alphas { stress := stress, secStress := sec, tone := tone }
          let σ ← getSyll w pos.si "insert: pos should not be out of bounds"
          let (keep, moved) := splitAt σ pos.gi
          let newSyll := { ns with segs := moved }
          let w1 := setSyll w pos.si { σ with segs := keep }
          let w2 ← insertSyll w1 (pos.si + 1) newSyll "insert: syllables.insert"
          let pos' : SegPos := { si := wadd pos.si 2, gi := 0 }
          match var with
          | some v =>
            match w2.sylls[pos'.si - 1]? with
            | some s => go rest w2 pos' (b.setVar v (.syll s))
            | none => .panic "insert: syllables[pos.syll_index - 1]"
          | none => go rest w2 pos' b
      | .struct items stress sec tone var => do
        let (ins, b1) ← genSyllFromStruct items stress sec tone var true b
        let (w', p') ← insertStructAt w pos ins true
        go rest w' p' b1
      | .variable num mods => do
        let k ← varIndex num
        match b.getVar k with
        | some (.seg seg) => do
          let (w', p', b') ← insertSegAt w pos seg mods b
          go rest w' p' b'
        | some (.syll σ) => do
          let ns ← (match mods with | some m => σ.applySyllMods b.alphas m.suprs | none => pure σ)
          let (w', p') ← insertSyllVarAt w pos ns
          go rest w' p' b
        | none => .err "UnknownVariable"
      | .matrix _ _ => .err "InsertionMatrix"
      | .set _ => .err "LonelySet"
      | _ => .panic "insert: unreachable!()"
  do
    let (w', p', b') ← go r.output w pos b
    let p'' := if isContextAfter then p'.increment w' else p'
    pure (w', some p'', b')

end Interp
end Asca
