import AscaVerif.Model.Interp.Subst
/-! `transform` (metathesis, deletion, insertion), `SubRule::apply`, `Rule::split_into_subrules`, `Rule::apply`. -/
namespace Asca
namespace Interp

/-- one swap of the metathesis loop (subrule.rs:628-683) -/
def metathPair (w : Word) (a c : MatchEl) : Res Word :=
  match a, c with
  | .segment li _, .segment ri _ =>
    match w.segAt li, w.segAt ri with
    | some sl, some sr => do
      let w1 ← setSegAt w li sr "metathesis: segments[li.seg_index] = sr"
      setSegAt w1 ri sl "metathesis: segments[ri.seg_index] = tmp"
    | _, _ => .panic "metathesis: get_seg_at(..).unwrap()"
  | .syllable i _, .syllable j _ =>
    match w.sylls[i]?, w.sylls[j]? with
    | some a', some b' => .ok { w with sylls := (w.sylls.set i b').set j a' }
    | _, _ => .panic "metathesis: swap_sylls"
  | .syllBound .., .syllBound .. => .ok w
  | .segment si _, .syllBound bi _ =>
    match w.segAt si with
    | none => .panic "metathesis: syllables[si.syll_index].segments[si.seg_index]"
    | some seg => do
      let w1 ← (if bi < w.sylls.length then do
          let σb ← getSyll w bi "metathesis"
          let w1 := setSyll w bi { σb with segs := seg :: σb.segs }
          let σs ← getSyll w1 si.si "metathesis"
          pure (setSyll w1 si.si (removeSegAt σs si.gi))
        else do
          let w1 : Word := { w with sylls := w.sylls ++ [{ segs := [seg] }] }
          let σs ← getSyll w1 si.si "metathesis"
          pure (setSyll w1 si.si (removeSegAt σs si.gi)))
      let σ ← getSyll w1 si.si "metathesis: syllables[si.syll_index]"
      if σ.segs.isEmpty then removeSyll w1 si.si "metathesis: syllables.remove" else pure w1
  | .syllBound bi _, .segment si _ =>
    match w.segAt si with
    | none => .panic "metathesis: syllables[si.syll_index].segments[si.seg_index]"
    | some seg => do
      let w1 ← (if bi > 0 then do
          let σb ← getSyll w (bi - 1) "metathesis: syllables[bi-1]"
          let w1 := setSyll w (bi - 1) { σb with segs := σb.segs ++ [seg] }
          let σs ← getSyll w1 si.si "metathesis"
          pure (setSyll w1 si.si (removeSegAt σs si.gi))
        else do
          let σs ← getSyll w si.si "metathesis"
          let w1 := setSyll w si.si (removeSegAt σs si.gi)
          pure ({ w1 with sylls := { segs := [seg] } :: w1.sylls } : Word))
      let σ ← getSyll w1 si.si "metathesis: syllables[si.syll_index]"
      if σ.segs.isEmpty then removeSyll w1 si.si "metathesis: syllables.remove" else pure w1
  | .segment .., .syllable .. | .syllable .., .segment .. => .err "MetathSyllSegment"
  | .syllable .., .syllBound .. | .syllBound .., .syllable .. => .err "MetathSyllBoundary"

def metathesis (caps : List MatchEl) (w : Word) : Res Word :=
  let n := caps.length
  let rec go : Nat → Nat → Word → Res Word
    | 0, _, w => .ok w
    | k + 1, z, w =>
      match caps[z]?, caps[n - 1 - z]? with
      | some a, some c => do
        let w' ← metathPair w a c
        go k (z + 1) w'
      | _, _ => .panic "metathesis: input[z]"
  go (n / 2) 0 w

/-- the insertion scan loop (subrule.rs:778-803) -/
def insertionLoop (r : SubRule) (orig : Word) (isContextAfter : Bool) : Nat → Word → SegPos → Res Word
  | 0, _, _ => .outOfFuel "insertion (transform)"
  | fuel + 1, res, pos =>
    if !res.inB pos then .ok res
    else do
      let (m, b1) ← insertionMatch fuel r res pos {}
      match m with
      | none => pure res
      | some ins => do
        let (ex, b2) ← insertionMatchExceptions fuel r orig ins b1
        if ex then insertionLoop r orig isContextAfter fuel res (pos.increment orig)
        else do
          let (res', np, _) ← insert r res ins isContextAfter b2
          match np with
          | some p =>
            let p' := if !isContextAfter && p.atSyllEnd res' then p.increment res' else p
            insertionLoop r orig isContextAfter fuel res' p'
          | none => pure res'

/-- `transform` (subrule.rs:623-809) -/
def transform (fuel : Nat) (r : SubRule) (w : Word) (caps : List MatchEl) (next : Option SegPos) (b : Binds) : Res (Word × Option SegPos × Binds) :=
  match r.ruleType with
  | .metathesis => do
    let w' ← metathesis caps w
    pure (w', next, b)
  | .deletion => do
    let (w', pos) ← deleteEls w none caps.reverse w { si := 0, gi := 0 }
    pure (w', (match next with | some _ => some (pos.increment w') | none => none), b)
  | .insertion => do
    let ((bc, ac), _) ← insertionEnvs r
    let isContextAfter := bc.isEmpty && !ac.isEmpty
    let w' ← insertionLoop r w isContextAfter fuel w { si := 0, gi := 0 }
    pure (w', next, b)
  | .substitution => substitution r w caps next b

/-- start and end of a match, as `SubRule::apply` computes them (subrule.rs:100-125) -/
def matchSpan (w : Word) (caps : List MatchEl) : Res (SegPos × SegPos) :=
  match caps.head?, caps.getLast? with
  | some first, some last => do
    let start : SegPos := match first with
      | .segment sp _ => sp
      | .syllable s _ | .syllBound s _ => { si := s, gi := 0 }
    let stop ← (match last with
      | .segment sp _ => do
        let L ← w.segLen sp
        pure (incN w (L - 1) sp)
      | .syllBound s _ =>
        if s != 0 then ({ si := s, gi := 0 } : SegPos).decrement w else pure { si := s, gi := 0 }
      | .syllable s _ =>
        match w.syllLen s with
        | some len => pure { si := s, gi := wsub len 1 }
        | none => .panic "apply: word.syllables[s]")
    pure (start, stop)
  | _, _ => .panic "apply: res[0]"

/-- the main loop of `SubRule::apply` (subrule.rs:95-147) -/
def applyLoop (r : SubRule) : Nat → Word → SegPos → Res Word
  | 0, _, _ => .outOfFuel "SubRule::apply"
  | fuel + 1, w, cur => do
    let (caps, next, b1) ← inputMatchAt fuel r.input w cur {}
    if caps.isEmpty then pure w
    else do
      let (start, stop) ← matchSpan w caps
      let (ok, b2) ← matchContextsAndExceptions fuel r w start stop true b1
      if !ok then
        match next with
        | some ci => applyLoop r fuel w ci
        | none => pure w
      else do
        let (w', next', _) ← transform fuel r w caps next b2
        match next' with
        | some ci => applyLoop r fuel w' ci
        | none => pure w'

/-- `SubRule::apply` (subrule.rs:82-149) -/
def applySubRule (fuel : Nat) (r : SubRule) (w : Word) : Res Word :=
  if r.ruleType = .insertion then do
    let (w', _, _) ← transform fuel r w [] none {}
    pure w'
  else applyLoop r fuel w { si := 0, gi := 0 }

/-- `Rule::split_into_subrules` (rule.rs:84-127); errors are `RuleSyntaxError` variant names -/
def splitIntoSubrules (r : Rule) : Res (List SubRule) :=
  let mx := max r.input.length (max r.output.length (max r.context.length r.except.length))
  if r.input.length != mx && r.input.length != 1 then .err "UnbalancedRuleIO"
  else if r.output.length != mx && r.output.length != 1 then .err "UnbalancedRuleIO"
  else if r.context.length != mx && r.context.length != 1 && !r.context.isEmpty then .err "UnbalancedRuleEnv"
  else if r.except.length != mx && r.except.length != 1 && !r.except.isEmpty then .err "UnbalancedRuleEnv"
  else
    let rec go : Nat → Nat → List SubRule → Res (List SubRule)
      | 0, _, acc => .ok acc.reverse
      | k + 1, i, acc =>
        let pick (l : List (List Item)) : Res (List Item) :=
          match (if l.length == 1 then l[0]? else l[i]?) with | some x => .ok x | none => .panic "split_into_subrules: index"
        let pickEnv (l : List Item) : Res (Option Item) :=
          if l.isEmpty then .ok none else match (if l.length == 1 then l[0]? else l[i]?) with | some x => .ok (some x) | none => .panic "split_into_subrules: index"
        do
          let input ← pick r.input
          let output ← pick r.output
          let context ← pickEnv r.context
          let except ← pickEnv r.except
          match input.head?, output.head? with
          | some i0, some o0 =>
            let rt : Res RuleType := (match i0, o0 with
              | .emptySet, .emptySet => .err "InsertDelete"
              | .emptySet, .metathesis => .err "InsertMetath"
              | .emptySet, _ => .ok .insertion
              | _, .emptySet => .ok .deletion
              | _, .metathesis => .ok .metathesis
              | _, _ => .ok .substitution)
            let t ← rt
            go k (i + 1) ({ input := input, output := output, context := context, except := except, ruleType := t } :: acc)
          | _, _ => .panic "split_into_subrules: input[0] / output[0]"
    go mx 0 []

/-- `Rule::apply` (rule.rs:129-138) -/
def applyRule (fuel : Nat) (r : Rule) (w : Word) : Res Word := do
  let subs ← splitIntoSubrules r
  subs.foldlM (fun w s => applySubRule fuel s w) w

end Interp
end Asca
