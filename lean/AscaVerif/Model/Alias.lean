import AscaVerif.Model.Render
import AscaVerif.Model.ParseWord
/-! Custom aliases, the fragment the property quantifies over (word.rs:261-350 and 717-827):
    * romanisers whose input is ONE plain IPA segment, ONE feature matrix of binary features, or `$`,
      and whose output is a replacement string, a `+` string, or `*`;
    * deromanisers `string > ipa` whose right-hand side is one plain IPA segment.
    Modifiers on alias segments (stress, tone, length), multi-segment inputs and the `+` deromaniser are
    exercised by the search in the harness only. -/
namespace Asca
open Outcome

namespace Alias

inductive RIn where
  | ipa (s : Seg)
  | matrix (feats : List (Nat × Bool))
  | bound
  deriving DecidableEq, Repr

inductive ROut where
  | repl (t : Text) (plus : Bool)
  | empty
  deriving DecidableEq, Repr

structure Rom where
  input : RIn
  output : ROut
  deriving DecidableEq, Repr

/-- `alias_match_feat_mod` with a binary modifier -/
def featHolds (s : Seg) (i : Nat) (positive : Bool) : Bool :=
  match featNodeMask? i with
  | some (n, mask) => s.featMatch n mask positive
  | none => false

/-- does the romaniser's input match this one segment (word.rs:743-772 for one-element inputs) -/
def RIn.hits : RIn → Seg → Bool
  | .ipa x, s => decide (s = x)
  | .matrix fs, s => fs.all (fun (i, p) => featHolds s i p)
  | .bound, _ => false

/-- `get_nearest_grapheme` (seg.rs:132-160) -/
def nearest (ord : Render.Table) (s : Seg) : Res Text :=
  match ord.find? (fun (_, seg) => seg = s) with
  | some (k, _) => .ok k
  | none =>
    match Render.candidates ord s with
    | (_, k, _) :: _ => .ok k
    | [] =>
      match Render.segToText ord s with
      | .ok (some t) => .ok t
      | .ok none => .ok [Render.replacementChar]
      | .err e => .err e | .panic p => .panic p | .outOfFuel p => .outOfFuel p

/-- the default text of one segment inside `render` (word.rs:803) -/
def defaultPiece (ord : Render.Table) (s : Seg) : Res Text :=
  match Render.segToText ord s with
  | .ok (some t) => .ok t
  | .ok none => .ok [Render.replacementChar]
  | .err e => .err e | .panic p => .panic p | .outOfFuel p => .outOfFuel p

/-- what one segment contributes to the output: `ː` after an identical segment, else the first romaniser that
    matches decides, else the default grapheme -/
def piece (roms : List Rom) (ord : Render.Table) (prev : Option Seg) (s : Seg) : Res Text :=
  if prev = some s then .ok [0x2D0]
  else
    match roms.find? (fun r => r.input.hits s) with
    | some r =>
      match r.output with
      | .repl t false => .ok t
      | .repl t true =>
        match nearest ord s with
        | .ok g => .ok (g ++ t)
        | .err e => .err e | .panic p => .panic p | .outOfFuel p => .outOfFuel p
      | .empty => .ok []
    | none => defaultPiece ord s

/-- the `'outer: while j < syll.segments.len()` loop (word.rs:735-805) -/
def renderSegs (roms : List Rom) (ord : Render.Table) : Option Seg → List Seg → Text → Res Text
  | _, [], acc => .ok acc
  | prev, s :: ss, acc =>
    match piece roms ord prev s with
    | .ok t => renderSegs roms ord (some s) ss (acc ++ t)
    | .err e => .err e | .panic p => .panic p | .outOfFuel p => .outOfFuel p

def renderSylls (roms : List Rom) (ord : Render.Table) : Nat → List Syll → Text → Res Text
  | _, [], acc => .ok acc
  | i, σ :: σs, acc =>
    let acc1 := match σ.stress with
      | .primary => acc ++ [0x2C8]
      | .secondary => acc ++ [0x2CC]
      | .unstressed => if i > 0 then acc ++ [0x2E] else acc
    match renderSegs roms ord none σ.segs acc1 with
    | .ok acc2 =>
      let acc3 := if σ.tone ≠ 0 then acc2 ++ Text.ofNat σ.tone else acc2
      renderSylls roms ord (i + 1) σs acc3
    | .err e => .err e | .panic p => .panic p | .outOfFuel p => .outOfFuel p

/-- the replacement for syllable boundaries: the LAST `$` romaniser wins (word.rs:807-815) -/
def boundRepl (roms : List Rom) : Option Text :=
  roms.foldl (fun acc r => match r.input, r.output with
    | .bound, .repl t _ => some t
    | .bound, .empty => some []
    | _, _ => acc) none

def isBoundaryMark (c : Nat) : Bool := c == 0x2E || c == 0x2C8 || c == 0x2CC

/-- word.rs:820-826: a leading stress mark is dropped when the replacement is not empty, then every `.`, `ˈ`, `ˌ`
    becomes the replacement -/
def rewriteBounds (b : Text) (t : Text) : Text :=
  let t1 := match t with
    | c :: cs => if !b.isEmpty && (c == 0x2C8 || c == 0x2CC) then cs else t
    | [] => t
  t1.flatMap (fun c => if isBoundaryMark c then b else [c])

/-- `Word::render(aliases)` (word.rs:717-827); the americanist respelling is NOT applied on this path -/
def render (roms : List Rom) (ord : Render.Table) (w : Word) : Res Text :=
  if roms.isEmpty then Render.renderWord ord w
  else
    match renderSylls roms ord 0 w.sylls [] with
    | .ok t => .ok (match boundRepl roms with | some b => rewriteBounds b t | none => t)
    | other => other

/-! ### deromanisers -/

/-- a deromaniser `key > X` with X one plain IPA segment -/
abbrev Derom := Text × Seg

/-- does `key` stand at position `i` of `txt` (word.rs:264-271) -/
def keyAt (txt : Text) (i : Nat) (key : Text) : Bool := key.isPrefixOf (txt.drop i)

/-- `fill_segments` with deromanisers: they are tried, in order, before the IPA lookup -/
def fillSegments (D : List Derom) (txt : Text) (i : Nat) (sy : Syll) : Res (Syll × Nat) :=
  match D.find? (fun d => keyAt txt i d.1) with
  | some (k, x) => .ok ({ sy with segs := sy.segs ++ [x] }, i + k.length)
  | none => ParseWord.fillSegments txt i sy

/-- `Word::new(normalise(text), deromanisers)` -/
def parseInput (D : List Derom) (text : Text) : Res Word := ParseWord.parseWordWith (fillSegments D) (ParseWord.normalise text)

end Alias
end Asca
