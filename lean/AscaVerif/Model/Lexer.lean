import AscaVerif.Model.ParseWord
import AscaVerif.Model.CliFiles
import AscaVerif.Gen.FeatNames
/-! The rule lexer (`lexer.rs:355-865`): `Lexer::get_line` and everything it calls, function by function.
    A line is a list of code points (the Rust lexer works on `&[char]`, so positions are character positions).
    Slicing past the end (`&self.source[1..]` on an empty source, `&self.source[0..n]` with `n` too large) is a `panic`
    VALUE of the model, a loop that does not end is `outOfFuel`; errors carry the variant name of `RuleSyntaxError`
    and the span the formatter will underline (`error/syntax.rs:236-258`: one caret at `pos` for the single-position
    variants, `start..end` for `UnknownFeature` / `UnknownEnbyFeature`). -/
namespace Asca
namespace Lex

/-- `lexer.rs: enum TokenKind`; a feature is named by the two strings of the generated table (`Feat`/`Node`/`Supr`, variant) -/
inductive TK where
  | leftSquare | rightSquare | leftCurly | rightCurly | rightAngle | leftAngle | leftBracket | rightBracket
  | leftColCurly | rightColCurly | greaterThan | equals | underline | arrow | comma | colon | wordBoundary
  | syllBoundary | syllable | ampersand | group | number | slash | dubSlash | pipe | cardinal
  | diacritic (i : Nat) | star | emptySet | ellipsis | comment | feature (kind variant : String) | eol
  deriving DecidableEq, Repr, Inhabited

structure Token where
  kind : TK
  value : Text
  start : Nat
  stop : Nat
  deriving DecidableEq, Repr, Inhabited

/-- a `RuleSyntaxError` of the lexer: variant name and the columns `[start, stop)` the formatter underlines -/
structure LErr where
  name : String
  start : Nat
  stop : Nat
  deriving DecidableEq, Repr, Inhabited

abbrev LRes := Outcome LErr

/-- `struct Lexer` without the (constant) group and line numbers -/
structure LS where
  src : Text
  pos : Nat
  inMatrix : Bool := false
  inOption : Bool := false
  inSyll : Bool := false
  inSet : Bool := false
  inEnvSet : Bool := false
  deriving DecidableEq, Repr, Inhabited

def isUpper (c : Nat) : Bool := 65 ≤ c && c ≤ 90
def isLower (c : Nat) : Bool := 97 ≤ c && c ≤ 122
def isAlpha (c : Nat) : Bool := isUpper c || isLower c
def isDigit (c : Nat) : Bool := 48 ≤ c && c ≤ 57
/-- `matches!(c, 'α'..='ω')` -/
def isGreek (c : Nat) : Bool := 945 ≤ c && c ≤ 969
def lower (c : Nat) : Nat := if isUpper c then c + 32 else c

def toStr (t : Text) : String := String.ofList (t.map Char.ofNat)

/-- `curr_char`: `'\0'` when the source is exhausted -/
def LS.cur (s : LS) : Nat := s.src.headD 0
/-- `next_char` -/
def LS.next (s : LS) : Nat := match s.src with | _ :: c :: _ => c | _ => 0
/-- `advance`: `self.source = &self.source[1..]` panics on an empty source -/
def LS.advance (s : LS) : LRes LS :=
  match s.src with
  | [] => .panic "advance: &self.source[1..]"
  | _ :: r => .ok { s with src := r, pos := s.pos + 1 }
/-- `chop(n)` -/
def LS.chop (s : LS) (n : Nat) : LRes (Text × LS) :=
  if n ≤ s.src.length then .ok (s.src.take n, { s with src := s.src.drop n, pos := s.pos + n })
  else .panic "chop: &self.source[0..n]"
/-- `chop_while` (its `n` never exceeds the length, so the inner `chop` cannot panic) -/
def LS.chopWhile (s : LS) (p : Nat → Bool) : Text × LS :=
  (s.src.takeWhile p, { s with src := s.src.dropWhile p, pos := s.pos + (s.src.takeWhile p).length })
/-- `trim_whitespace` -/
def LS.trimWs (s : LS) : LS := (s.chopWhile Cli.isWs).2

abbrev Step := LRes (Option (Token × LS))

/-- consume the current character and emit a token that began at `start` -/
def emit1 (k : TK) (v : Text) (start : Nat) (s : LS) : Step := do
  let s' ← s.advance
  pure (some (⟨k, v, start, s'.pos⟩, s'))

/-- `self.chop(n)` as the token's value; the token began at `start` -/
def chopTok (k : TK) (n : Nat) (start : Nat) (s : LS) : Step := do
  let (v, s') ← s.chop n
  pure (some (⟨k, v, start, s'.pos⟩, s'))

/-- `self.chop_while(p)` as the token's value -/
def whileTok (k : TK) (p : Nat → Bool) (s : LS) : Step :=
  .ok (some (⟨k, (s.chopWhile p).1, s.pos, (s.chopWhile p).2.pos⟩, (s.chopWhile p).2))

/-- `get_bracket` (lexer.rs:419-462) -/
def getBracket (s : LS) : Step :=
  if s.cur = 41 then emit1 .rightBracket [41] s.pos { s with inOption := false }
  else if s.cur = 93 then emit1 .rightSquare [93] s.pos { s with inMatrix := false }
  else if s.cur = 0x27E9 then emit1 .rightAngle [0x27E9] s.pos { s with inSyll := false }
  else if s.cur = 125 then
    if s.next = 58 then do
      let s1 ← ({ s with inEnvSet := false } : LS).advance
      emit1 .rightColCurly [125, 58] s.pos s1
    else emit1 .rightCurly [125] s.pos { s with inSet := false }
  else if s.cur = 0x27E8 then
    if s.inSyll then .err ⟨"NestedBrackets", s.pos, s.pos + 1⟩ else emit1 .leftAngle [0x27E8] s.pos { s with inSyll := true }
  else if s.cur = 123 then
    if s.inSet then .err ⟨"NestedBrackets", s.pos, s.pos + 1⟩ else emit1 .leftCurly [123] s.pos { s with inSet := true }
  else if s.cur = 40 then
    if s.inOption then .err ⟨"NestedBrackets", s.pos, s.pos + 1⟩ else emit1 .leftBracket [40] s.pos { s with inOption := true }
  else if s.cur = 91 then
    if s.inMatrix then .err ⟨"NestedBrackets", s.pos, s.pos + 1⟩ else emit1 .leftSquare [91] s.pos { s with inMatrix := true }
  else .ok none

/-- `get_primative` (lexer.rs:464-472) -/
def getPrimative (s : LS) : Step :=
  if s.inMatrix || !isUpper s.cur then .ok none
  else chopTok .group 1 s.pos s

/-- `get_numeric` (lexer.rs:474-488): a run of digits; one that does not fit a `usize` (64 bits here) is rejected,
    so every number the parser and the interpreter later `parse::<usize>().unwrap()` fits -/
def getNumeric (s : LS) : Step :=
  if !isDigit s.cur then .ok none
  else if ParseWord.digitsToNat (s.chopWhile isDigit).1 < 2 ^ 64 then
    .ok (some (⟨.number, (s.chopWhile isDigit).1, s.pos, (s.chopWhile isDigit).2.pos⟩, (s.chopWhile isDigit).2))
  else .err ⟨"NumberTooBig", s.pos, (s.chopWhile isDigit).2.pos⟩

/-- `feature_match` (lexer.rs:751-819): the arm whose spellings contain the lower-cased buffer -/
def featureMatch (buf : Text) : Option (String × String) :=
  (Gen.featNames.find? (fun e => e.2.2.contains (toStr (buf.map lower)))).map (fun e => (e.1, e.2.1))

/-- `string_match` (lexer.rs:741-749) -/
def toneNames : List String := ["tone", "ton", "tne", "tn"]
def stringMatch (buf : Text) : Bool := toneNames.contains (toStr (buf.map lower))

/-- the buffer loop of `get_feature`: `while alphabetic or '.' { push; advance; trim_whitespace }` -/
def featLoop : Nat → LS → Text → LRes (Text × LS)
  | 0, _, _ => .outOfFuel "get_feature"
  | fuel + 1, s, buf =>
    if isAlpha s.cur || s.cur = 46 then do
      let s1 ← s.advance
      featLoop fuel s1.trimWs (buf ++ [s.cur])
    else .ok (buf, s)

/-- the sign of `get_feature`: `+`, `-`, an alpha, or `-` followed by an alpha (Greek letter or ASCII capital) -/
def featMod (c : Nat) (s1 : LS) : LRes (Text × LS) :=
  if c = 45 && (isGreek s1.cur || isUpper s1.cur) then do
    let s2 ← s1.advance
    pure ([45, s1.cur], s2)
  else pure ([c], s1)

/-- what `get_feature` does with the collected name -/
def featFinish (start : Nat) (modVal buf : Text) (s4 : LS) : Step :=
  if buf.length ≤ 1 then .err ⟨"ExpectedAlphabetic", s4.pos, s4.pos + 1⟩
  else
    match featureMatch buf with
    | none => .err ⟨"UnknownFeature", start, s4.pos⟩
    | some (kind, variant) =>
      if kind = "Supr" && variant = "Tone" && (modVal = [43] || modVal = [45]) then .err ⟨"WrongModTone", start, start + 1⟩
      else pure (some (⟨.feature kind variant, modVal, start, s4.pos⟩, s4))

/-- `get_feature` (lexer.rs:484-523) -/
def getFeature (s : LS) : Step :=
  if !s.inMatrix || (s.cur != 43 && s.cur != 45 && !isGreek s.cur && !isUpper s.cur) then .ok none
  else do
    let s1 ← s.advance
    let (modVal, s2) ← featMod s.cur s1
    let (buf, s4) ← featLoop (s2.trimWs.src.length + 1) s2.trimWs []
    featFinish s.pos modVal buf s4

/-- `get_special_char` (lexer.rs:525-586) -/
def getSpecialChar (s : LS) : Step :=
  if s.cur = 44 then chopTok .comma 1 s.pos s
  else if s.cur = 35 then chopTok .wordBoundary 1 s.pos s
  else if s.cur = 36 then chopTok .syllBoundary 1 s.pos s
  else if s.cur = 37 then chopTok .syllable 1 s.pos s
  else if s.cur = 42 then chopTok .star 1 s.pos s
  else if s.cur = 0x2205 then chopTok .emptySet 1 s.pos s
  else if s.cur = 38 then chopTok .ampersand 1 s.pos s
  else if s.cur = 95 then whileTok .underline (· == 95) s
  else if s.cur = 58 then
    if s.next = 123 then
      if s.inEnvSet then .err ⟨"NestedBrackets", s.pos, s.pos + 1⟩
      else chopTok .leftColCurly 2 s.pos { s with inEnvSet := true }
    else chopTok .colon 1 s.pos s
  else if s.cur = 60 then
    if s.inSyll then .err ⟨"NestedBrackets", s.pos, s.pos + 1⟩
    else chopTok .leftAngle 1 s.pos { s with inSyll := true }
  else if s.cur = 62 then
    chopTok (if s.inSyll then .rightAngle else .greaterThan) 1 s.pos { s with inSyll := false }
  else if s.cur = 124 then chopTok .pipe 1 s.pos s
  else if s.cur = 47 then
    if s.next = 47 then chopTok .dubSlash 2 s.pos s else chopTok .slash 1 s.pos s
  else if s.cur = 61 then
    if s.next = 62 then chopTok .arrow 2 s.pos s else chopTok .equals 1 s.pos s
  else if s.cur = 45 then
    if s.next = 62 then chopTok .arrow 2 s.pos s else .err ⟨"ExpectedCharArrow", s.pos, s.pos + 1⟩
  else if s.cur = 0x2026 || s.cur = 0x22EF then chopTok .ellipsis 1 s.pos s
  else if s.cur = 46 then
    if s.next = 46 then whileTok .ellipsis (· == 46) s else .err ⟨"ExpectedCharDot", s.pos, s.pos + 1⟩
  else .ok none

/-- index of the diacritic with this character in `DIACRITS` -/
def diaIndex (c : Nat) : Option Nat :=
  let i := Gen.diacritics.findIdx (fun d => d.chr = c)
  if i < Gen.diacritics.length then some i else none

/-- the typewriter apostrophe stands for the ejective mark -/
def diaChar (c : Nat) : Nat := if c = 39 then 700 else c

/-- `get_diacritic` (lexer.rs:588-601) -/
def getDiacritic (s : LS) : Step :=
  if s.inMatrix then .ok none
  else
    match diaIndex (diaChar s.cur) with
    | some i => emit1 (.diacritic i) [diaChar s.cur] s.pos s
    | none => .ok none

/-- `cur_as_ipa` (lexer.rs:603-628) -/
def asIpa : Nat → Nat
  | 103 => 609 | 63 => 660 | 33 => 451 | 322 => 620 | 241 => 626 | 966 => 632
  | c => c

/-- the americanist letters `¢ ƛ λ` and what they stand for -/
def amer : Nat → Option Text
  | 162 => some [116, 865, 115] | 411 => some [116, 865, 620] | 955 => some [100, 865, 622]
  | _ => none

/-- `'ʘ' | 'ǀ' | 'ǁ' | 'ǃ' | '!' | '‼' | 'ǂ'` -/
def isClickCh (c : Nat) : Bool := c == 664 || c == 448 || c == 449 || c == 451 || c == 33 || c == 8252 || c == 450
/-- `'q' | 'ɢ' | 'ɴ' | 'χ' | 'ʁ'` -/
def isContourCh (c : Nat) : Bool := c == 113 || c == 610 || c == 628 || c == 967 || c == 641

/-- `if let Some(click) = tmp.chars().next()` -/
def headIsClick (buf : Text) : Bool := match buf.head? with | some h => isClickCh h | none => false

/-- the first character of a grapheme, the americanist letters spelled out -/
def ipaFirst (c : Nat) : Text := match amer c with | some t => t | none => [asIpa c]

/-- the loop of `get_ipa` (lexer.rs:647-706) -/
def ipaLoop : Nat → LS → Text → LRes (Text × LS)
  | 0, _, _ => .outOfFuel "get_ipa"
  | fuel + 1, s, buf =>
    if ParseWord.isPrefixKey (buf ++ [asIpa s.cur]) then do
      let s1 ← s.advance
      ipaLoop fuel s1 (buf ++ [asIpa s.cur])
    else
      match amer s.cur with
      | some t => do
        let s1 ← s.advance
        ipaLoop fuel s1 (buf ++ t)
      | none =>
        if s.cur = 94 then
          if ParseWord.isPrefixKey (buf ++ [0x361]) then do
            let s1 ← s.advance
            ipaLoop fuel s1 (buf ++ [0x361])
          else if ParseWord.isPrefixKey (buf ++ [0x35C]) then do
            let s1 ← s.advance
            ipaLoop fuel s1 (buf ++ [0x35C])
          else if isClickCh s.next then do
            let s1 ← s.advance
            ipaLoop fuel s1 buf
          else if isContourCh s.next && headIsClick buf then do
            let s1 ← s.advance
            ipaLoop fuel s1 buf
          else .ok (buf, s)
        else .ok (buf, s)

/-- `get_ipa` (lexer.rs:630-709) -/
def getIpa (s : LS) : Step :=
  if s.inMatrix then .ok none
  else
    if ParseWord.isPrefixKey (ipaFirst s.cur) then do
      let s1 ← s.advance
      let (buf, s2) ← ipaLoop (s1.src.length + 1) s1 (ipaFirst s.cur)
      pure (some (⟨.cardinal, buf, s.pos, s2.pos⟩, s2))
    else .ok none

/-- `get_string` (lexer.rs:711-739): `tone : number` -/
def getString (s : LS) : Step :=
  if !isAlpha s.cur then .ok none
  else if !s.inMatrix then .err ⟨"OutsideBrackets", s.pos, s.pos + 1⟩
  else
    let start := s.pos
    let (buf, s1) := s.chopWhile isAlpha
    if !stringMatch buf then .err ⟨"UnknownEnbyFeature", start, start + buf.length⟩
    else
      let s2 := s1.trimWs
      if s2.cur = 58 then do
        let s3 ← s2.advance
        let s4 := s3.trimWs
        match getNumeric s4 with
        | .ok (some (num, s5)) => pure (some (⟨.feature "Supr" "Tone", num.value, start, s5.pos⟩, s5))
        | .ok none => .err ⟨"ExpectedNumber", s4.pos, s4.pos + 1⟩
        | .err e => .err e
        | .panic p => .panic p
        | .outOfFuel p => .outOfFuel p
      else .err ⟨"ExpectedCharColon", s2.pos, s2.pos + 1⟩

/-- `get_comment` (lexer.rs:821-831) -/
def getComment (s : LS) : Step :=
  if s.cur != 59 then .ok none
  else do
    let s1 ← s.advance
    if s1.cur != 59 then .err ⟨"MalformedComment", s1.pos, s1.pos + 1⟩
    else do
      let s2 ← s1.advance
      let (buf, s3) := s2.chopWhile (fun _ => true)
      pure (some (⟨.comment, buf, s.pos, s3.pos⟩, s3))

/-- try the next recogniser when this one declined -/
def orElse (x : Step) (y : Unit → Step) : Step :=
  match x with
  | .ok none => y ()
  | r => r

/-- `get_next_token` (lexer.rs:833-851) -/
def getNextToken (s0 : LS) : LRes (Token × LS) :=
  let s := s0.trimWs
  if s.src.isEmpty then .ok (⟨.eol, [], s.pos, s.pos + 1⟩, s)
  else
    match orElse (getComment s) fun _ => orElse (getBracket s) fun _ => orElse (getPrimative s) fun _ =>
          orElse (getNumeric s) fun _ => orElse (getFeature s) fun _ => orElse (getSpecialChar s) fun _ =>
          orElse (getIpa s) fun _ => orElse (getDiacritic s) fun _ => getString s with
    | .ok (some r) => .ok r
    | .ok none => .err ⟨"UnknownCharacter", s.pos, s.pos + 1⟩
    | .err e => .err e
    | .panic p => .panic p
    | .outOfFuel p => .outOfFuel p

/-- the loop of `get_line` (lexer.rs:853-864) -/
def lineLoop : Nat → LS → List Token → LRes (List Token)
  | 0, _, _ => .outOfFuel "get_line"
  | fuel + 1, s, acc =>
    match getNextToken s with
    | .ok (t, s') => if t.kind = .eol then .ok (acc ++ [t]) else lineLoop fuel s' (acc ++ [t])
    | .err e => .err e
    | .panic p => .panic p
    | .outOfFuel p => .outOfFuel p

/-- `Lexer::new(line).get_line()` -/
def lexLine (src : Text) : LRes (List Token) := lineLoop (src.length + 1) { src := src, pos := 0 } []

end Lex
end Asca
