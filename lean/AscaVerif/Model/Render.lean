import AscaVerif.Model.Word
/-! `Segment::get_as_grapheme` (seg.rs:165-235) and `Word::render_normal` (word.rs:542-571).
    The order in which the grapheme table is walked (`CARDINALS_VEC`) is an explicit parameter `ord`. -/
namespace Asca
open Outcome

namespace Render

abbrev Table := List (Text × Seg)

/-- the diacritic loop for one candidate (seg.rs:210-231), including the two `continue`s that skip the final test -/
def tryDias (target cand : Seg) : List Gen.Dia → Seg → Text → Res (Option Text)
  | [], _, _ => .ok none
  | d :: ds, buf, str =>
    match buf.matchDiaMods d.prereqNodes d.prereqFeats with
    | .ok none =>
      match target.matchDiaMods d.payloadNodes d.payloadFeats with
      | .ok none =>
        match buf.applyDiaPayload d with
        | .ok buf' =>
          if buf' = buf then tryDias target cand ds buf str
          else if buf' = cand then tryDias target cand ds buf' str
          else
            let str' := str ++ [d.chr]
            if buf' = target then .ok (some str') else tryDias target cand ds buf' str'
        | .err e => .err e | .panic p => .panic p | .outOfFuel p => .outOfFuel p
      | .ok (some _) => if buf = target then .ok (some str) else tryDias target cand ds buf str
      | .err e => .err e | .panic p => .panic p | .outOfFuel p => .outOfFuel p
    | .ok (some _) => if buf = target then .ok (some str) else tryDias target cand ds buf str
    | .err e => .err e | .panic p => .panic p | .outOfFuel p => .outOfFuel p

def tryCands (target : Seg) : List (Seg × Text × Nat) → Res (Option Text)
  | [] => .ok none
  | (cseg, ckey, _) :: cs =>
    match tryDias target cseg Gen.diacritics cseg ckey with
    | .ok (some t) => .ok (some t)
    | .ok none => tryCands target cs
    | .err e => .err e | .panic p => .panic p | .outOfFuel p => .outOfFuel p

/-- candidates with fewer than 8 differing bits, in table order, then stably sorted by distance -/
def candidates (ord : Table) (target : Seg) : List (Seg × Text × Nat) :=
  let cs := ord.filterMap fun (k, seg) => let d := target.diffCount seg; if d < 8 then some (seg, k, d) else none
  cs.mergeSort (fun a b => a.2.2 ≤ b.2.2)

/-- `get_as_grapheme` -/
def segToText (ord : Table) (target : Seg) : Res (Option Text) :=
  match ord.find? (fun (_, seg) => seg = target) with
  | some (k, _) => .ok (some k)
  | none => tryCands target (candidates ord target)

def replacementChar : Nat := 0xFFFD

/-- one syllable's segments (word.rs:550-556) -/
def renderSegs (ord : Table) : Option Seg → List Seg → Text → Res Text
  | _, [], acc => .ok acc
  | prev, s :: ss, acc =>
    if prev = some s then renderSegs ord (some s) ss (acc ++ [0x2D0])
    else
      match segToText ord s with
      | .ok (some t) => renderSegs ord (some s) ss (acc ++ t)
      | .ok none => renderSegs ord (some s) ss (acc ++ [replacementChar])
      | .err e => .err e | .panic p => .panic p | .outOfFuel p => .outOfFuel p

def renderSylls (ord : Table) : Nat → List Syll → Text → Res Text
  | _, [], acc => .ok acc
  | i, σ :: σs, acc =>
    let acc1 := match σ.stress with
      | .primary => acc ++ [0x2C8]
      | .secondary => acc ++ [0x2CC]
      | .unstressed => if i > 0 then acc ++ [0x2E] else acc
    match renderSegs ord none σ.segs acc1 with
    | .ok acc2 =>
      let acc3 := if σ.tone ≠ 0 then acc2 ++ Text.ofNat σ.tone else acc2
      renderSylls ord (i + 1) σs acc3
    | .err e => .err e | .panic p => .panic p | .outOfFuel p => .outOfFuel p

/-- the americanist respellings applied to the rendered text (word.rs:562-567), in order -/
def americanistOut : List (Text × Text) :=
  [([0x74, 0x361, 0x73], [0xA2]), ([0x74, 0x361, 0x26C], [0x19B]), ([0x64, 0x361, 0x26E], [0x3BB]), ([0x26C], [0x142]), ([0x272], [0xF1])]

/-- `Word::render_normal` -/
def renderWord (ord : Table) (w : Word) : Res Text :=
  match renderSylls ord 0 w.sylls [] with
  | .ok t => .ok (if w.americanist then americanistOut.foldl (fun acc (p, r) => Text.replaceAll p r acc) t else t)
  | other => other

end Render
end Asca
