import AscaVerif.Model.Seg
/-! AST of parsed rules (`parser.rs:16-232`, `rule.rs:16-78`), binding tables, error kinds. -/
namespace Asca

inductive BinMod where | pos | neg
  deriving DecidableEq, Repr, Inhabited

/-- alpha letters are code points -/
inductive AlphaMod where | alpha (c : Nat) | inv (c : Nat)
  deriving DecidableEq, Repr, Inhabited

inductive ModKind where | bin (b : BinMod) | alpha (a : AlphaMod)
  deriving DecidableEq, Repr, Inhabited

/-- `SupraSegs`: `stress = [stress, secstress]`, `length = [long, overlong]`, `tone` -/
structure SupraSegs where
  stress : Option ModKind := none
  secStress : Option ModKind := none
  long : Option ModKind := none
  overlong : Option ModKind := none
  tone : Option Nat := none
  deriving DecidableEq, Repr, Inhabited

/-- `Modifiers`: `nodes` has 8 entries (NodeKind order), `feats` 26 (FType order) -/
structure Modifiers where
  nodes : List (Option ModKind)
  feats : List (Option ModKind)
  suprs : SupraSegs := {}
  deriving DecidableEq, Repr, Inhabited

def Modifiers.empty : Modifiers := { nodes := List.replicate 8 none, feats := List.replicate 26 none }

/-- `rule.rs: enum Alpha` -/
inductive Alpha where
  | node (n : NodeKind) (v : Option (BitVec 8))
  | place (lab cor dor phr : Option (BitVec 8))
  | feature (b : Bool)
  | supra (b : Bool)
  deriving DecidableEq, Repr, Inhabited

/-- `Alpha::as_binary` -/
def Alpha.asBinary : Alpha → Bool
  | .feature b | .supra b => b
  | .node _ v => v.isSome
  | .place l c d p => l.isSome || c.isSome || d.isSome || p.isSome

/-- `RefCell<HashMap<char, Alpha>>`: looked up by key only; `insert` overwrites. -/
abbrev Alphas := List (Nat × Alpha)

def Alphas.get? (a : Alphas) (c : Nat) : Option Alpha := (a.find? (·.1 == c)).map (·.2)
def Alphas.insert (a : Alphas) (c : Nat) (v : Alpha) : Alphas := (c, v) :: a.filter (·.1 != c)

/-- results of interpreter functions: the error is the `RuleRuntimeError` variant name -/
abbrev Res := Outcome String

end Asca
