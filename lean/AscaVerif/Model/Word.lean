import AscaVerif.Model.Syll
import AscaVerif.Gen.Cardinals
import AscaVerif.Gen.Diacritics
/-! `Word` (word.rs), the diacritic helpers of seg.rs (`match_modifiers(DiaMods)`, `apply_diacritic_payload`,
    `check_and_apply_diacritic`), `diff_count`, and small text utilities.  Text = list of code points. -/
namespace Asca
open Outcome

abbrev Text := List Nat

/-- `struct Word { syllables: Vec<Syllable>, americanist: bool }` -/
structure Word where
  sylls : List Syll
  americanist : Bool := false
  deriving DecidableEq, Repr, Inhabited

namespace Text
/-- `str::replace(pat, rep)` for a non-empty pattern: leftmost, non-overlapping -/
def replaceAll (pat rep : Text) : Text → Text
  | [] => []
  | c :: cs =>
    if pat ≠ [] ∧ pat.isPrefixOf (c :: cs) then rep ++ replaceAll pat rep ((c :: cs).drop pat.length)
    else c :: replaceAll pat rep cs
termination_by t => t.length
decreasing_by
  all_goals simp_wf
  · rename_i h
    have : pat.length ≥ 1 := by
      cases pat with
      | nil => exact absurd rfl h.1
      | cons _ _ => simp
    simp; omega

/-- decimal digits of a number (`u16::to_string`) -/
def ofNat (n : Nat) : Text := (Nat.toDigits 10 n).map Char.toNat

def isAsciiDigit (c : Nat) : Bool := 48 ≤ c && c ≤ 57
end Text

namespace Seg

def popCount {n : Nat} (v : BitVec n) : Nat := (List.range n).countP (fun i => v.getLsbD i)

/-- `diff_count` (seg.rs:308-321) -/
def diffCount (a b : Seg) : Nat :=
  let plc : BitVec 16 := match a.place, b.place with
    | none, none => 0#16
    | none, some y => y
    | some x, none => x
    | some x, some y => x ^^^ y
  popCount (a.root ^^^ b.root) + popCount (a.manner ^^^ b.manner) + popCount (a.laryngeal ^^^ b.laryngeal) + popCount plc

/-- feature loop of `Segment::match_modifiers(&DiaMods)`: index of the first failing entry -/
def diaFeatsGo (s : Seg) : Nat → List (Option Bool) → Res (Option Nat)
  | _, [] => .ok none
  | i, m :: ms =>
    match m with
    | none => diaFeatsGo s (i + 1) ms
    | some b =>
      match featNodeMask? i with
      | none => .panic "FType::from_usize / to_node_mask"
      | some (n, mask) => if s.featMatch n mask b then diaFeatsGo s (i + 1) ms else .ok (some i)

def diaNodesGo (s : Seg) : Nat → List (Option Bool) → Res (Option Nat)
  | _, [] => .ok none
  | i, m :: ms =>
    match m with
    | none => diaNodesGo s (i + 1) ms
    | some b =>
      match NodeKind.ofNat? i with
      | none => .panic "NodeKind::from_usize"
      | some nk =>
        match nk.toNode? with
        | none => .panic "is_node_some(Place)"
        | some n => if (if b then s.isNodeSome n else s.isNodeNone n) then diaNodesGo s (i + 1) ms else .ok (some i)

/-- `match_modifiers(&DiaMods)`: `none` = Ok(()), `some (i, isNode)` = Err((i, isNode)) -/
def matchDiaMods (s : Seg) (nodes feats : List (Option Bool)) : Res (Option (Nat × Bool)) :=
  match diaFeatsGo s 0 feats with
  | .ok (some i) => .ok (some (i, false))
  | .ok none =>
    match diaNodesGo s 0 nodes with
    | .ok (some i) => .ok (some (i, true))
    | .ok none => .ok none
    | .err e => .err e | .panic p => .panic p | .outOfFuel p => .outOfFuel p
  | .err e => .err e | .panic p => .panic p | .outOfFuel p => .outOfFuel p

def diaPayloadNodesGo : Nat → List (Option Bool) → Seg → Res Seg
  | _, [], s => .ok s
  | i, m :: ms, s =>
    match m with
    | none => diaPayloadNodesGo (i + 1) ms s
    | some b =>
      match NodeKind.ofNat? i with
      | none => .panic "NodeKind::from_usize"
      | some nk =>
        match s.setNodeKind nk (if b then some 0#8 else none) with
        | .ok s' => diaPayloadNodesGo (i + 1) ms s'
        | .err e => .err e | .panic p => .panic p | .outOfFuel p => .outOfFuel p

def diaPayloadFeatsGo : Nat → List (Option Bool) → Seg → Res Seg
  | _, [], s => .ok s
  | i, m :: ms, s =>
    match m with
    | none => diaPayloadFeatsGo (i + 1) ms s
    | some b =>
      match featNodeMask? i with
      | none => .panic "FType::from_usize / to_node_mask"
      | some (n, f) => diaPayloadFeatsGo (i + 1) ms (s.setFeat n f b)

/-- `apply_diacritic_payload` (seg.rs:467-493): nodes, then features -/
def applyDiaPayload (s : Seg) (d : Gen.Dia) : Res Seg :=
  match diaPayloadNodesGo 0 d.payloadNodes s with
  | .ok s' => diaPayloadFeatsGo 0 d.payloadFeats s'
  | other => other

end Seg

namespace Word

/-- `seg_length_at` -/
def segLengthAt (w : Word) (si gi : Nat) : Res Nat :=
  match w.sylls[si]? with
  | some σ => .ok (σ.segLengthAt gi)
  | none => .panic "seg_length_at: syllables[syll_index]"

def inBounds (w : Word) (si gi : Nat) : Bool :=
  match w.sylls[si]? with
  | some σ => decide (gi < σ.segs.length)
  | none => false

def getSegAt (w : Word) (si gi : Nat) : Option Seg :=
  match w.sylls[si]? with
  | some σ => σ.segs[gi]?
  | none => none

/-- `Word::reverse` (word.rs:908-916) -/
def reverse (w : Word) : Word :=
  { w with sylls := (w.sylls.map fun σ => { σ with segs := σ.segs.reverse }).reverse }

end Word
end Asca
