import AscaVerif.Model.Basic
import AscaVerif.Gen.PlaceConsts
/-! Model of `place.rs`: `Place(Option<u16>)`, operation by operation, with the literals the
    translator reads out of the current source (`Gen.PlaceConsts`). -/
namespace Asca

/-- `Place(Option<u16>)`. -/
abbrev Place := Option (BitVec 16)

def Sub.consts : Sub → Gen.SubConsts
  | .lab => Gen.labConsts
  | .cor => Gen.corConsts
  | .dor => Gen.dorConsts
  | .phr => Gen.phrConsts

namespace Place

/-- `*_is_some`: `Some(x) => BIT & x == BIT`, `None => false`. -/
def subIsSome (n : Sub) (p : Option (BitVec 16)) : Bool :=
  match p with
  | some x => (n.consts.isAnd &&& x) == n.consts.isEq
  | none => false

/-- the value a getter reads from a raw `u16`: `((x >> OFF) & MSK) as u8`. -/
def rawGet (c : Gen.SubConsts) (x : BitVec 16) : BitVec 8 :=
  ((x >>> c.getOff) &&& c.getMsk).setWidth 8

/-- `get_labial` … `get_pharyngeal`. -/
def getSub (n : Sub) (p : Option (BitVec 16)) : Option (BitVec 8) :=
  match p with
  | some x => if (n.consts.isAnd &&& x) == n.consts.isEq then some (rawGet n.consts x) else none
  | none => none

/-- `*d |= BIT; *d = (*d & !LOW) | ((m as u16) << OFF)`. -/
def rawSetSome (c : Gen.SubConsts) (d : BitVec 16) (m : BitVec 8) : BitVec 16 :=
  ((d ||| c.ssBit) &&& ~~~c.ssClr) ||| ((m.setWidth 16) <<< c.ssOff)

/-- `Some(BIT | ((MSK & m as u16) << OFF))`. -/
def rawNew (c : Gen.SubConsts) (m : BitVec 8) : BitVec 16 :=
  c.snBit ||| ((c.snMsk &&& m.setWidth 16) <<< c.snOff)

/-- `*d &= !(BIT | LOW)`. -/
def rawUnset (c : Gen.SubConsts) (d : BitVec 16) : BitVec 16 :=
  d &&& ~~~(c.unBit ||| c.unLow)

/-- `if matches!(self.0, Some(0)) { self.0 = None; }`. -/
def norm (x : BitVec 16) : Option (BitVec 16) := if x == 0#16 then none else some x

/-- `set_labial` … `set_pharyngeal` (release build: the `debug_assert!` on the range is not evaluated). -/
def setSub (n : Sub) (p : Option (BitVec 16)) (v : Option (BitVec 8)) : Option (BitVec 16) :=
  match v, p with
  | some m, some d => norm (rawSetSome n.consts d m)
  | some m, none   => norm (rawNew n.consts m)
  | none,   some d => norm (rawUnset n.consts d)
  | none,   none   => none

/-- a value is in the range the setter's `debug_assert!` allows. -/
def InRange (n : Sub) (m : BitVec 8) : Prop := m ≤ n.consts.rng

instance (n : Sub) (m : BitVec 8) : Decidable (InRange n m) := by unfold InRange; infer_instance

end Place
end Asca
