import AscaVerif.Model.Place
import AscaVerif.Gen.FeatTable
/-! Model of the accessors of `seg.rs` (`Segment`, lines 323-465) over the place model. -/
namespace Asca

/-- `struct Segment { root, manner, laryngeal: u8, place: Place }`. -/
structure Seg where
  root : BitVec 8
  manner : BitVec 8
  laryngeal : BitVec 8
  place : Option (BitVec 16)
  deriving DecidableEq, Repr, Inhabited

/-- the nodes `get_node`/`set_node` accept without panicking (everything but `NodeKind::Place`). -/
inductive Node where
  | root | manner | laryngeal | sub (n : Sub)
  deriving DecidableEq, Repr, Inhabited

def Node.all : List Node := [.root, .manner, .laryngeal, .sub .lab, .sub .cor, .sub .dor, .sub .phr]

/-- `NodeKind::Place` has no image: `get_node(Place)` / `set_node(Place, _)` panic. -/
def NodeKind.toNode? : NodeKind → Option Node
  | .root => some .root | .manner => some .manner | .laryngeal => some .laryngeal
  | .place => none
  | .labial => some (.sub .lab) | .coronal => some (.sub .cor)
  | .dorsal => some (.sub .dor) | .pharyngeal => some (.sub .phr)

def Node.toKind : Node → NodeKind
  | .root => .root | .manner => .manner | .laryngeal => .laryngeal
  | .sub .lab => .labial | .sub .cor => .coronal | .sub .dor => .dorsal | .sub .phr => .pharyngeal

namespace Seg

/-- `get_node` (seg.rs:329). -/
def getNode (s : Seg) : Node → Option (BitVec 8)
  | .root => some s.root
  | .manner => some s.manner
  | .laryngeal => some s.laryngeal
  | .sub n => Place.getSub n s.place

/-- `set_node` (seg.rs:359).  `none` = the `expect("…Node cannot be null")` panic. -/
def setNode? (s : Seg) : Node → Option (BitVec 8) → Option Seg
  | .root, some v => some { s with root := v }
  | .manner, some v => some { s with manner := v }
  | .laryngeal, some v => some { s with laryngeal := v }
  | .root, none | .manner, none | .laryngeal, none => none
  | .sub n, v => some { s with place := Place.setSub n s.place v }

/-- `set_node` with a `Some` value never panics. -/
def setNodeSome (s : Seg) (n : Node) (v : BitVec 8) : Seg :=
  match n with
  | .root => { s with root := v }
  | .manner => { s with manner := v }
  | .laryngeal => { s with laryngeal := v }
  | .sub k => { s with place := Place.setSub k s.place (some v) }

/-- `get_feat` (seg.rs:379). -/
def getFeat (s : Seg) (n : Node) (feat : BitVec 8) : Option (BitVec 8) :=
  (s.getNode n).map (· &&& feat)

/-- `set_feat` (seg.rs:391). -/
def setFeat (s : Seg) (n : Node) (feat : BitVec 8) (toPositive : Bool) : Seg :=
  if toPositive then
    s.setNodeSome n ((s.getNode n).getD 0#8 ||| feat)
  else match s.getNode n with
    | some v => s.setNodeSome n (v &&& ~~~feat)
    | none => s

def isNodeSome (s : Seg) (n : Node) : Bool := (s.getNode n).isSome
def isNodeNone (s : Seg) (n : Node) : Bool := (s.getNode n).isNone

/-- `feat_match` (seg.rs:440). -/
def featMatch (s : Seg) (n : Node) (mask : BitVec 8) (positive : Bool) : Bool :=
  match s.getNode n with
  | none => false
  | some v => if positive then (v &&& mask) == mask else (v &&& mask) == 0#8

/-- `node_match` (seg.rs:457). -/
def nodeMatch (s : Seg) (n : Node) (mv : Option (BitVec 8)) : Bool :=
  match s.getNode n, mv with
  | none, mv => mv.isNone
  | some _, none => false
  | some v, some m => v == m

end Seg

/-- `FType::from_usize(i).to_node_mask()` from the generated table; `none` = out of range
    (`unreachable!`) or a `Place` node (would panic in `get_node`). -/
def featNodeMask? (i : Nat) : Option (Node × BitVec 8) :=
  match Gen.featTable[i]? with
  | some (_, _, nk, m) => nk.toNode?.map (·, m)
  | none => none

def featCount : Nat := Gen.featTable.length

end Asca
