import AscaVerif.Model.Ast
/-! Segment-level modifier matching and application:
    `Segment::apply_seg_mods` (seg.rs:501-631), `SubRule::match_node` / `match_seg_kind` /
    `match_feat_mod` / `match_node_mod` (subrule.rs:2624-2744), `Segment::match_modifiers` and
    `apply_diacritic_payload` for the binary-only `DiaMods` (seg.rs:237-280, 467-499). -/
namespace Asca
open Outcome

namespace Seg

/-- `set_node(node, v)` where `node` comes from `NodeKind` (`Place` panics, `None` on a major node panics) -/
def setNodeKind (s : Seg) (nk : NodeKind) (v : Option (BitVec 8)) : Res Seg :=
  match nk.toNode? with
  | none => .panic "set_node(Place)"
  | some n => match s.setNode? n v with
    | some s' => .ok s'
    | none => .panic "set_node(major node, None)"

def getNodeKind (s : Seg) (nk : NodeKind) : Res (Option (BitVec 8)) :=
  match nk.toNode? with
  | none => .panic "get_node(Place)"
  | some n => .ok (s.getNode n)

/-- one entry of the node loop of `apply_seg_mods` (seg.rs:502-580) -/
def applyNodeMod (s : Seg) (al : Alphas) (nk : NodeKind) (kind : ModKind) (isMatchingIpa : Bool) : Res (Seg × Alphas) :=
  match kind with
  | .bin .neg =>
    match nk with
    | .root | .manner | .laryngeal => .err "NodeCannotBeNone"
    | .place => .ok ({ s with place := none }, al)
    | _ => do let s' ← s.setNodeKind nk none; pure (s', al)
  | .bin .pos =>
    match nk with
    | .root | .manner | .laryngeal | .place => .err "NodeCannotBeSome"
    | _ => do
      let cur ← s.getNodeKind nk
      if cur.isNone then do let s' ← s.setNodeKind nk (some 0#8); pure (s', al) else pure (s, al)
  | .alpha (.alpha ch) =>
    match al.get? ch with
    | some alpha =>
      match alpha with
      | .node n m => if n = nk then do let s' ← s.setNodeKind n m; pure (s', al) else .err "AlphaIsNotSameNode"
      | .place lab cor dor phr =>
        match nk with
        | .root | .manner | .laryngeal => .err "NodeCannotBeSet"
        | .place => do
          let s1 ← s.setNodeKind .labial lab
          let s2 ← s1.setNodeKind .coronal cor
          let s3 ← s2.setNodeKind .dorsal dor
          let s4 ← s3.setNodeKind .pharyngeal phr
          pure (s4, al)
        | .labial => do let s' ← s.setNodeKind .labial lab; pure (s', al)
        | .coronal => do let s' ← s.setNodeKind .coronal cor; pure (s', al)
        | .dorsal => do let s' ← s.setNodeKind .dorsal dor; pure (s', al)
        | .pharyngeal => do let s' ← s.setNodeKind .pharyngeal phr; pure (s', al)
      | _ => .err "AlphaIsNotNode"
    | none =>
      if isMatchingIpa then
        if nk = .place then
          .ok (s, al.insert ch (.place (s.getNode (.sub .lab)) (s.getNode (.sub .cor)) (s.getNode (.sub .dor)) (s.getNode (.sub .phr))))
        else do
          let v ← s.getNodeKind nk
          pure (s, al.insert ch (.node nk v))
      else .err "AlphaUnknown"
  | .alpha (.inv _) => .err "AlphaNodeAssignInv"

/-- one entry of the feature loop of `apply_seg_mods` (seg.rs:581-629) -/
def applyFeatMod (s : Seg) (al : Alphas) (i : Nat) (kind : ModKind) (isMatchingIpa : Bool) : Res (Seg × Alphas) :=
  match featNodeMask? i with
  | none => .panic "FType::from_usize / to_node_mask"
  | some (n, f) =>
    match kind with
    | .bin .neg => .ok (s.setFeat n f false, al)
    | .bin .pos => .ok (s.setFeat n f true, al)
    | .alpha (.alpha ch) =>
      match al.get? ch with
      | some alpha => .ok (s.setFeat n f alpha.asBinary, al)
      | none =>
        if isMatchingIpa then
          let x := match s.getFeat n f with | some v => v != 0#8 | none => false
          .ok (s, al.insert ch (.feature x))
        else .err "AlphaUnknown"
    | .alpha (.inv ch) =>
      match al.get? ch with
      | some alpha => .ok (s.setFeat n f (!alpha.asBinary), al)
      | none =>
        if isMatchingIpa then
          let x := match s.getFeat n f with | some v => v != 0#8 | none => false
          .ok (s, al.insert ch (.feature (!x)))
        else .err "AlphaUnknown"

def applyNodeModsGo (isMatchingIpa : Bool) : Nat → List (Option ModKind) → Seg → Alphas → Res (Seg × Alphas)
  | _, [], s, al => .ok (s, al)
  | i, m :: ms, s, al =>
    match NodeKind.ofNat? i with
    | none => .panic "NodeKind::from_usize"
    | some nk =>
      match m with
      | none => applyNodeModsGo isMatchingIpa (i + 1) ms s al
      | some kind =>
        match applyNodeMod s al nk kind isMatchingIpa with
        | .ok (s', al') => applyNodeModsGo isMatchingIpa (i + 1) ms s' al'
        | .err e => .err e
        | .panic p => .panic p
        | .outOfFuel p => .outOfFuel p

def applyFeatModsGo (isMatchingIpa : Bool) : Nat → List (Option ModKind) → Seg → Alphas → Res (Seg × Alphas)
  | _, [], s, al => .ok (s, al)
  | i, m :: ms, s, al =>
    match m with
    | none => applyFeatModsGo isMatchingIpa (i + 1) ms s al
    | some kind =>
      match applyFeatMod s al i kind isMatchingIpa with
      | .ok (s', al') => applyFeatModsGo isMatchingIpa (i + 1) ms s' al'
      | .err e => .err e
      | .panic p => .panic p
      | .outOfFuel p => .outOfFuel p

/-- `Segment::apply_seg_mods(alphas, nodes, feats, err_pos, is_matching_ipa)`: nodes first, then features. -/
def applySegMods (s : Seg) (al : Alphas) (nodes feats : List (Option ModKind)) (isMatchingIpa : Bool) : Res (Seg × Alphas) :=
  match applyNodeModsGo isMatchingIpa 0 nodes s al with
  | .ok (s', al') => applyFeatModsGo isMatchingIpa 0 feats s' al'
  | .err e => .err e
  | .panic p => .panic p
  | .outOfFuel p => .outOfFuel p

end Seg

namespace Match

/-- `SubRule::match_node` (subrule.rs:2640-2711) -/
def matchNode (seg : Seg) (al : Alphas) (nk : NodeKind) (val : ModKind) : Res (Bool × Alphas) :=
  match val with
  | .bin b =>
    if nk = .place then
      let x := seg.place.isSome
      .ok ((match b with | .pos => x | .neg => !x), al)
    else do
      let v ← seg.getNodeKind nk
      pure ((match b with | .pos => v.isSome | .neg => v.isNone), al)
  | .alpha (.alpha ch) =>
    match al.get? ch with
    | some alph =>
      match alph with
      | .node n m =>
        if n = nk then
          match n.toNode? with
          | some nd => .ok (seg.nodeMatch nd m, al)
          | none => .panic "node_match(Place)"
        else .err "AlphaIsNotSameNode"
      | .place lab cor dor phr =>
        .ok (seg.nodeMatch (.sub .lab) lab && seg.nodeMatch (.sub .cor) cor && seg.nodeMatch (.sub .dor) dor
              && seg.nodeMatch (.sub .phr) phr, al)
      | _ => .err "AlphaIsNotNode"
    | none =>
      if nk = .place then
        .ok (true, al.insert ch (.place (seg.getNode (.sub .lab)) (seg.getNode (.sub .cor)) (seg.getNode (.sub .dor)) (seg.getNode (.sub .phr))))
      else do
        let v ← seg.getNodeKind nk
        pure (true, al.insert ch (.node nk v))
  | .alpha (.inv ch) =>
    match al.get? ch with
    | some alph =>
      match alph with
      | .node n m =>
        if n = nk then
          match n.toNode? with
          | some nd => .ok (!seg.nodeMatch nd m, al)
          | none => .panic "node_match(Place)"
        else .err "AlphaIsNotNode"
      | .place lab cor dor phr =>
        .ok (!seg.nodeMatch (.sub .lab) lab || !seg.nodeMatch (.sub .cor) cor || !seg.nodeMatch (.sub .dor) dor
              || !seg.nodeMatch (.sub .phr) phr, al)
      | _ => .err "AlphaIsNotNode"
    | none => .err "AlphaUnknownInv"

/-- `SubRule::match_seg_kind` (subrule.rs:2713-2744) -/
def matchSegKind (seg : Seg) (al : Alphas) (n : Node) (mask : BitVec 8) (kind : ModKind) : Bool × Alphas :=
  match kind with
  | .bin .neg => (seg.featMatch n mask false, al)
  | .bin .pos => (seg.featMatch n mask true, al)
  | .alpha (.alpha ch) =>
    match al.get? ch with
    | some alph => (seg.featMatch n mask alph.asBinary, al)
    | none =>
      match seg.getFeat n mask with
      | some f => (true, al.insert ch (.feature (f != 0#8)))
      | none => (false, al)
  | .alpha (.inv ch) =>
    match al.get? ch with
    | some alph => (seg.featMatch n mask (!alph.asBinary), al)
    | none =>
      match seg.getFeat n mask with
      | some f => (true, al.insert ch (.feature (f == 0#8)))
      | none => (false, al)

/-- the feature loop of `match_modifiers` (subrule.rs:2529-2533): stops at the first mismatch -/
def matchFeatsGo (seg : Seg) : Nat → List (Option ModKind) → Alphas → Res (Bool × Alphas)
  | _, [], al => .ok (true, al)
  | i, m :: ms, al =>
    match m with
    | none => matchFeatsGo seg (i + 1) ms al
    | some kind =>
      match featNodeMask? i with
      | none => .panic "FType::from_usize / to_node_mask"
      | some (n, mask) =>
        let (b, al') := matchSegKind seg al n mask kind
        if b then matchFeatsGo seg (i + 1) ms al' else .ok (false, al')

/-- the node loop of `match_modifiers` (subrule.rs:2534-2538) -/
def matchNodesGo (seg : Seg) : Nat → List (Option ModKind) → Alphas → Res (Bool × Alphas)
  | _, [], al => .ok (true, al)
  | i, m :: ms, al =>
    match m with
    | none => matchNodesGo seg (i + 1) ms al
    | some kind =>
      match NodeKind.ofNat? i with
      | none => .panic "NodeKind::from_usize"
      | some nk =>
        match matchNode seg al nk kind with
        | .ok (b, al') => if b then matchNodesGo seg (i + 1) ms al' else .ok (false, al')
        | .err e => .err e
        | .panic p => .panic p
        | .outOfFuel p => .outOfFuel p

/-- the segmental part of `SubRule::match_modifiers`: features first, then nodes -/
def matchSegMods (seg : Seg) (al : Alphas) (mods : Modifiers) : Res (Bool × Alphas) :=
  match matchFeatsGo seg 0 mods.feats al with
  | .ok (true, al') => matchNodesGo seg 0 mods.nodes al'
  | other => other

end Match
end Asca
