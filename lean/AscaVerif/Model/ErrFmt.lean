import AscaVerif.Model.Run
import AscaVerif.Model.Ast
/-! The arithmetic and indexing of the error formatters (`error/syntax.rs:207-322`, `error/runtime.rs:135-200`):
    which line is shown and where the carets go.  Colours and message texts are not modelled. -/
namespace Asca
namespace ErrFmt

/-- `" ".repeat(start) + &"^".repeat(end - start)`; `end - start` underflows (release: wraps to ~2^64 and `repeat` aborts
    with a capacity overflow) when `end < start` -/
def spanLine (start stop : Nat) : Res (List Char) :=
  if stop < start then .panic "\"^\".repeat(end - start): capacity overflow"
  else .ok (List.replicate start ' ' ++ List.replicate (stop - start) '^')

/-- two-position runtime errors (after the fix of D28): `a` then `b` on the same line -/
def twoSpanLine (aStart aStop bStart bStop : Nat) : Res (List Char) :=
  if aStop < aStart || bStop < bStart then .panic "\"^\".repeat(end - start): capacity overflow"
  else .ok (List.replicate aStart ' ' ++ List.replicate (aStop - aStart) '^' ++ List.replicate (bStart - aStop) ' ' ++ List.replicate (bStop - bStart) '^')

/-- `rules[group].rule[line]` -/
def shownLine (groups : List (List Str)) (g l : Nat) : Res Str :=
  match groups[g]? with
  | none => .panic "rules[group]"
  | some rg => match rg[l]? with
    | none => .panic "rules[group].rule[line]"
    | some s => .ok s

/-- columns holding a caret -/
def caretCols (line : List Char) : List Nat := (List.range line.length).filter (fun i => line[i]? == some '^')

/-- a formatted rule error: the line shown and the caret line -/
def formatRule (groups : List (List Str)) (g l start stop : Nat) : Res (Str × List Char) := do
  let c ← spanLine start stop
  let s ← shownLine groups g l
  pure (s, c)

end ErrFmt
end Asca
