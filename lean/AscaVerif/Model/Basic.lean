/-! Basic vocabulary shared by every model module.  Core Lean only (no Mathlib, no Std tactics), so the
    driver that imports the model can be compiled and linked as a plain `lean_exe`. -/
namespace Asca

/-- `seg.rs: enum NodeKind` (same order; `lexer.rs: enum NodeType` has the same order — the translator checks). -/
inductive NodeKind where
  | root | manner | laryngeal | place | labial | coronal | dorsal | pharyngeal
  deriving DecidableEq, Repr, Inhabited

def NodeKind.all : List NodeKind :=
  [.root, .manner, .laryngeal, .place, .labial, .coronal, .dorsal, .pharyngeal]

/-- `NodeKind::from_usize` (identity on the enum order; checked by the translator). -/
def NodeKind.ofNat? : Nat → Option NodeKind
  | 0 => some .root | 1 => some .manner | 2 => some .laryngeal | 3 => some .place
  | 4 => some .labial | 5 => some .coronal | 6 => some .dorsal | 7 => some .pharyngeal
  | _ => none

def NodeKind.toNat : NodeKind → Nat
  | .root => 0 | .manner => 1 | .laryngeal => 2 | .place => 3
  | .labial => 4 | .coronal => 5 | .dorsal => 6 | .pharyngeal => 7

/-- The four place sub-nodes. -/
inductive Sub where
  | lab | cor | dor | phr
  deriving DecidableEq, Repr, Inhabited

def Sub.all : List Sub := [.lab, .cor, .dor, .phr]

/-- Result of a modelled Rust call.  `panic` and `outOfFuel` are values: a panic site or a
    non-terminating loop in the Rust code is a *result* of the model, never hidden by totalisation. -/
inductive Outcome (ε α : Type) where
  | ok (a : α)
  | err (e : ε)
  | panic (site : String)
  | outOfFuel (site : String)
  deriving Repr, DecidableEq, Inhabited

namespace Outcome
@[inline] def bind {ε α β} (x : Outcome ε α) (f : α → Outcome ε β) : Outcome ε β :=
  match x with
  | .ok a => f a
  | .err e => .err e
  | .panic s => .panic s
  | .outOfFuel s => .outOfFuel s

instance {ε} : Monad (Outcome ε) where
  pure := .ok
  bind := Outcome.bind

def isOk {ε α} : Outcome ε α → Bool
  | .ok _ => true
  | _ => false

def map' {ε α β} (f : α → β) : Outcome ε α → Outcome ε β
  | .ok a => .ok (f a)
  | .err e => .err e
  | .panic s => .panic s
  | .outOfFuel s => .outOfFuel s
end Outcome

namespace Outcome
variable {ε : Type}

@[simp] theorem bind_ok {α β} (a : α) (f : α → Outcome ε β) : (Outcome.ok a >>= f) = f a := rfl
@[simp] theorem bind_err {α β} (e : ε) (f : α → Outcome ε β) : ((Outcome.err e : Outcome ε α) >>= f) = .err e := rfl
@[simp] theorem bind_panic {α β} (s : String) (f : α → Outcome ε β) : ((Outcome.panic s : Outcome ε α) >>= f) = .panic s := rfl
@[simp] theorem bind_fuel {α β} (s : String) (f : α → Outcome ε β) : ((Outcome.outOfFuel s : Outcome ε α) >>= f) = .outOfFuel s := rfl
@[simp] theorem pure_eq {α} (a : α) : (pure a : Outcome ε α) = .ok a := rfl

instance : LawfulMonad (Outcome ε) := LawfulMonad.mk'
  (id_map := by intro α x; cases x <;> rfl)
  (pure_bind := by intros; rfl)
  (bind_assoc := by intro α β γ x f g; cases x <;> rfl)

end Outcome


end Asca
