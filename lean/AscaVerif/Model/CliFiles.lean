import AscaVerif.Model.Word
/-! The file formats of the command line (`src/cli/parse.rs:8-101`, `src/cli/util.rs:258-294`): the three readers
    (`.rsca`, `.wsca`, `.alias`) and the three writers used by `asca conv json`.  Text is a list of code points. -/
namespace Asca
namespace Cli

/-- `char::is_whitespace` (the Unicode `White_Space` property) -/
def isWs (c : Nat) : Bool :=
  (9 ≤ c && c ≤ 13) || c == 32 || c == 0x85 || c == 0xA0 || c == 0x1680 || (0x2000 ≤ c && c ≤ 0x200A) ||
  c == 0x2028 || c == 0x2029 || c == 0x202F || c == 0x205F || c == 0x3000

def trimStart (t : Text) : Text := t.dropWhile isWs
def trimEnd (t : Text) : Text := (t.reverse.dropWhile isWs).reverse
/-- `str::trim` -/
def trim (t : Text) : Text := trimEnd (trimStart t)

/-- a line that ended in `\n` loses one `\r` before it -/
def stripCr (t : Text) : Text := if t.getLast? = some 13 then t.dropLast else t

/-- `str::lines`: split after every `\n`; a line that ended in `\n` also loses a `\r`; no empty last line -/
def linesGo (cur : Text) : Text → List Text
  | [] => if cur.isEmpty then [] else [cur]
  | c :: rest => if c = 10 then stripCr cur :: linesGo [] rest else linesGo (cur ++ [c]) rest

def lines (t : Text) : List Text := linesGo [] t

/-- `str::split(c)`: always at least one piece -/
def splitOn (sep : Nat) : Text → List Text
  | [] => [[]]
  | c :: cs =>
    if c = sep then [] :: splitOn sep cs
    else match splitOn sep cs with
      | [] => [[c]]
      | p :: ps => (c :: p) :: ps

structure Group where
  name : Text := []
  rules : List Text := []
  desc : Text := []
  deriving DecidableEq, Repr, Inhabited

/-- `RuleGroup::is_empty` -/
def Group.isEmpty (g : Group) : Bool := g.name.isEmpty && g.rules.isEmpty && g.desc.isEmpty

def at' : Nat := 64   -- '@'
def hash : Nat := 35  -- '#'

/-- one line of `parse_rsca` (parse.rs:11-50): state = groups finished so far and the group being read -/
def rscaStep (st : List Group × Group) (line0 : Text) : List Group × Group :=
  let line := trim line0
  let (acc, r) := st
  if line.head? = some at' then
    (if r.isEmpty then acc else acc ++ [r], { name := trim line.tail })
  else if line.head? = some hash then
    (acc, { r with desc := (if r.desc.isEmpty then [] else r.desc ++ [10]) ++ trim line.tail })
  else if line.isEmpty then
    if !r.isEmpty && !r.desc.isEmpty then (acc ++ [r], {}) else (acc, r)
  else if r.desc.isEmpty then (acc, { r with rules := r.rules ++ [line] })
  else (acc ++ [r], { rules := [line] })

def parseRscaLines (ls : List Text) : List Group :=
  let (acc, r) := ls.foldl rscaStep ([], {})
  if r.isEmpty then acc else acc ++ [r]

/-- `parse_rsca` -/
def parseRsca (t : Text) : List Group := parseRscaLines (lines t)

/-- the lines `to_rsca_format` writes for one group (util.rs:258-278) -/
def emitGroup (g : Group) : List Text :=
  [[at', 32] ++ g.name] ++ g.rules.map ([32, 32, 32, 32] ++ ·) ++ (splitOn 10 g.desc).map ([hash, 32] ++ ·)

/-- every line is written followed by `\n` -/
def unlines (ls : List Text) : Text := ls.flatMap (· ++ [10])

def toRsca (gs : List Group) : Text := unlines (gs.flatMap emitGroup)

/-- `parse_wsca` (parse.rs:92-101): per line, the word before the first `#` and the rest as a comment -/
def wscaLine (line : Text) : Text × Text :=
  match splitOn hash (trim line) with
  | [] => ([], [])
  | w :: cs => (trim w, trim cs.flatten)

def parseWsca (t : Text) : List Text × List Text := ((lines t).map wscaLine).unzip

/-- `words.join("\n")` (convert.rs:36) -/
def joinLines : List Text → Text
  | [] => []
  | [w] => w
  | w :: ws => w ++ [10] ++ joinLines ws

def toWsca (ws : List Text) : Text := joinLines ws

def intoTag : Text := [at', 105, 110, 116, 111]   -- "@into"
def fromTag : Text := [at', 102, 114, 111, 109]   -- "@from"

/-- one line of `parse_alias` (parse.rs:55-89): `some true` = reading `@into`, `some false` = reading `@from` -/
def aliasStep (st : Option Bool × List Text × List Text) (line0 : Text) : Option Bool × List Text × List Text :=
  let line := trim line0
  let (mode, into, frm) := st
  if intoTag.isPrefixOf line then (some true, into, frm)
  else if fromTag.isPrefixOf line then (some false, into, frm)
  else if line.head? = some hash then st
  else match mode with
    | some true => (mode, into ++ [line], frm)
    | some false => (mode, into, frm ++ [line])
    | none => st

def parseAliasLines (ls : List Text) : List Text × List Text :=
  let (_, into, frm) := ls.foldl aliasStep (none, [], [])
  (into, frm)

def parseAlias (t : Text) : List Text × List Text := parseAliasLines (lines t)

/-- `to_alias` (util.rs:280-294) -/
def emitAlias (into frm : List Text) : List Text :=
  [intoTag] ++ into.map ([32, 32, 32, 32] ++ ·) ++ [fromTag] ++ frm.map ([32, 32, 32, 32] ++ ·)

def toAlias (into frm : List Text) : Text := unlines (emitAlias into frm)

end Cli
end Asca
