import AscaVerif.Model.Lexer
import AscaVerif.Gen.Escapes
/-! The alias lexer (`alias/lexer.rs:17-580`): `AliasLexer::get_line` for romaniser and deromaniser lines, function by
    function.  The scanning state (source, position, `inside_matrix`) is the rule lexer's `Lex.LS`, so its primitives
    (`advance`, `chop`, `chop_while`, `trim_whitespace`) and the loops shared with the rule lexer (`featLoop`, `ipaLoop`)
    are reused; `past_arrow` and `inside_angle` are added.  Errors are `AliasSyntaxError` variant names with the span
    `format_alias_error` underlines. -/
namespace Asca
namespace ALex
open Lex (LS LErr LRes)

/-- `alias/mod.rs: enum AliasTokenKind` -/
inductive ATK where
  | leftSquare | rightSquare | lessThan | greaterThan | equals | underline | arrow | comma | colon | wordBoundary
  | syllBoundary | syllable | group | number | plus | cardinal | diacritic (i : Nat) | star | emptySet
  | feature (kind variant : String) | string | eol
  deriving DecidableEq, Repr, Inhabited

structure AToken where
  kind : ATK
  value : Text
  start : Nat
  stop : Nat
  deriving DecidableEq, Repr, Inhabited

/-- `struct AliasLexer` (the alias kind is a parameter of the functions) -/
structure ALS where
  ls : LS
  pastArrow : Bool := false
  inAngle : Bool := false
  deriving DecidableEq, Repr, Inhabited

abbrev AStep := LRes (Option (AToken × ALS))

def ALS.cur (s : ALS) : Nat := s.ls.cur
def ALS.next (s : ALS) : Nat := s.ls.next
def ALS.pos (s : ALS) : Nat := s.ls.pos
def ALS.adv (s : ALS) : LRes ALS := do
  let l ← s.ls.advance
  pure { s with ls := l }
def ALS.trim (s : ALS) : ALS := { s with ls := s.ls.trimWs }

/-- consume `n` characters as the token's value -/
def chopTokA (k : ATK) (n : Nat) (s : ALS) : AStep := do
  let (v, l) ← s.ls.chop n
  pure (some (⟨k, v, s.pos, l.pos⟩, { s with ls := l }))

/-- `get_bracket` (alias/lexer.rs:66-84) -/
def getBracket (s : ALS) : AStep :=
  if s.cur = 93 then chopTokA .rightSquare 1 { s with ls := { s.ls with inMatrix := false } }
  else if s.cur = 91 then
    if s.ls.inMatrix then .err ⟨"NestedBrackets", s.pos, s.pos + 1⟩
    else chopTokA .leftSquare 1 { s with ls := { s.ls with inMatrix := true } }
  else .ok none

/-- `feature_match` of the alias lexer (its own copy of the table) -/
def featureMatch (buf : Text) : Option (String × String) :=
  (Gen.aliasFeatNames.find? (fun e => e.2.2.contains (Lex.toStr (buf.map Lex.lower)))).map (fun e => (e.1, e.2.1))

def featFinish (start : Nat) (modVal buf : Text) (s : ALS) : AStep :=
  if buf.length ≤ 1 then .err ⟨"ExpectedAlphabetic", s.pos, s.pos + 1⟩
  else
    match featureMatch buf with
    | none => .err ⟨"UnknownFeature", start, s.pos⟩
    | some (kind, variant) =>
      if kind = "Supr" && variant = "Tone" && (modVal = [43] || modVal = [45]) then .err ⟨"WrongModTone", start, start + 1⟩
      else pure (some (⟨.feature kind variant, modVal, start, s.pos⟩, s))

/-- `get_feature` (alias/lexer.rs:157-190): only `+` and `-` modify a feature in an alias (no alphas: repair of D31) -/
def getFeature (s : ALS) : AStep :=
  if !s.ls.inMatrix || (s.cur != 43 && s.cur != 45) then .ok none
  else do
    let l1 ← s.ls.advance
    let (buf, l4) ← Lex.featLoop (l1.trimWs.src.length + 1) l1.trimWs []
    featFinish s.pos [s.cur] buf { s with ls := l4 }

/-- `get_repl_plus` -/
def getReplPlus (s : ALS) : AStep :=
  if s.cur = 43 then chopTokA .plus 1 s else .ok none

/-- `get_special_char` (alias/lexer.rs:207-256) -/
def getSpecialChar (s : ALS) : AStep :=
  if s.cur = 44 then chopTokA .comma 1 s
  else if s.cur = 58 then chopTokA .colon 1 s
  else if s.cur = 35 then chopTokA .wordBoundary 1 s
  else if s.cur = 36 then chopTokA .syllBoundary 1 s
  else if s.cur = 37 then chopTokA .syllable 1 s
  else if s.cur = 42 then chopTokA .star 1 s
  else if s.cur = 0x2205 then chopTokA .emptySet 1 s
  else if s.cur = 95 then chopTokA .underline 1 s
  else if s.cur = 60 then chopTokA .lessThan 1 { s with inAngle := true }
  else if s.cur = 62 then chopTokA .greaterThan 1 { s with pastArrow := !s.inAngle, inAngle := false }
  else if s.cur = 61 then
    if s.next = 62 then chopTokA .arrow 2 { s with pastArrow := true } else chopTokA .equals 1 s
  else if s.cur = 45 then
    if s.next = 62 then chopTokA .arrow 2 { s with pastArrow := true } else .err ⟨"ExpectedCharArrow", s.pos, s.pos + 1⟩
  else .ok none

/-- `get_diacritic` (alias/lexer.rs:258-271) -/
def getDiacritic (s : ALS) : AStep :=
  if s.ls.inMatrix then .ok none
  else
    match Lex.diaIndex (Lex.diaChar s.cur) with
    | some i => do
      let s' ← s.adv
      pure (some (⟨.diacritic i, [Lex.diaChar s.cur], s.pos, s'.pos⟩, s'))
    | none => .ok none

/-- `get_ipa` (alias/lexer.rs:285-358): the rule lexer's loop -/
def getIpa (s : ALS) : AStep :=
  if s.ls.inMatrix then .ok none
  else
    if ParseWord.isPrefixKey (Lex.ipaFirst s.cur) then do
      let l1 ← s.ls.advance
      let (buf, l2) ← Lex.ipaLoop (l1.src.length + 1) l1 (Lex.ipaFirst s.cur)
      pure (some (⟨.cardinal, buf, s.pos, l2.pos⟩, { s with ls := l2 }))
    else .ok none

/-- `get_primative` -/
def getPrimative (s : ALS) : AStep :=
  if s.ls.inMatrix || !Lex.isUpper s.cur then .ok none else chopTokA .group 1 s

/-- `get_numeric`: the digits as they are -/
def getNumeric (s : ALS) : Option (AToken × ALS) :=
  if !Lex.isDigit s.cur then none
  else some (⟨.number, (s.ls.chopWhile Lex.isDigit).1, s.pos, (s.ls.chopWhile Lex.isDigit).2.pos⟩, { s with ls := (s.ls.chopWhile Lex.isDigit).2 })

/-- `get_enby` (alias/lexer.rs:369-395): `tone : number`; a tone that does not fit a `Tone` (u16) is rejected -/
def getEnby (s : ALS) : AStep :=
  if !Lex.isAlpha s.cur then .ok none
  else if !s.ls.inMatrix then .err ⟨"OutsideBrackets", s.pos, s.pos + 1⟩
  else
    if !Lex.stringMatch (s.ls.chopWhile Lex.isAlpha).1 then
      .err ⟨"UnknownEnbyFeature", s.pos, s.pos + (s.ls.chopWhile Lex.isAlpha).1.length⟩
    else
      let l2 := (s.ls.chopWhile Lex.isAlpha).2.trimWs
      if l2.cur = 58 then do
        let l3 ← l2.advance
        let s4 : ALS := { s with ls := l3.trimWs }
        match getNumeric s4 with
        | some (num, s5) =>
          if ParseWord.digitsToNat num.value < 2 ^ 16 then pure (some (⟨.feature "Supr" "Tone", num.value, s.pos, s5.pos⟩, s5))
          else .err ⟨"ToneTooBig", num.start, num.stop⟩
        | none => .err ⟨"ExpectedNumber", s4.pos, s4.pos + 1⟩
      else .err ⟨"ExpectedCharColon", l2.pos, l2.pos + 1⟩

/-- `is_valid_char` -/
def isValidChar (c : Nat) : Bool :=
  !(Cli.isWs c || c == 92 || c == 64 || c == 36 || c == 0x2205 || c == 42 || c == 62 || c == 61 || c == 43 || c == 45 || c == 44)

def isHexDigit (c : Nat) : Bool := Lex.isDigit c || (65 ≤ c && c ≤ 70) || (97 ≤ c && c ≤ 102)
def hexVal (c : Nat) : Nat := if Lex.isDigit c then c - 48 else if 65 ≤ c && c ≤ 70 then c - 55 else c - 87
def hexToNat (t : Text) : Nat := t.foldl (fun acc c => acc * 16 + hexVal c) 0

/-- `char::from_u32`: not a surrogate, at most 0x10FFFF -/
def isScalar (n : Nat) : Bool := n < 0xD800 || (0xE000 ≤ n && n ≤ 0x10FFFF)

/-- `parse_unicode_escape` (alias/lexer.rs:441-464): `{ hex }`; `u32::from_str_radix` fails on no digits and above 2^32-1 -/
def parseUnicodeEscape (l : LS) : LRes (Nat × LS) :=
  if l.cur != 123 then .err ⟨"ExpectedLeftCurly", l.pos, l.pos + 1⟩
  else do
    let l1 ← l.advance
    let l2 := l1.trimWs
    let (buf, l3) := l2.chopWhile isHexDigit
    let l4 := l3.trimWs
    if l4.cur != 125 then .err ⟨"ExpectedRightCurly", l4.pos, l4.pos + 1⟩
    else do
      let l5 ← l4.advance
      if buf.isEmpty || !(hexToNat buf < 2 ^ 32) || !isScalar (hexToNat buf) then .err ⟨"InvalidUnicodeEscape", l2.pos, l2.pos + 1⟩
      else pure (hexToNat buf, l5)

/-- `get_unicode_escape` (alias/lexer.rs:424-439): after the backslash -/
def getUnicodeEscape (l : LS) : LRes (Nat × LS) :=
  let c := l.cur
  if c == 92 || c == 64 || c == 36 || c == 0x2205 || c == 42 || c == 62 || c == 61 || c == 43 || c == 45 || c == 44 then do
    let l1 ← l.advance
    pure (c, l1)
  else if c = 117 then do
    let l1 ← l.advance
    parseUnicodeEscape l1
  else .err ⟨"UnknownEscapeChar", l.pos, l.pos + 1⟩

/-- the name loop of `get_named_escape` -/
def nameLoop : Nat → LS → Text → LRes (Text × LS)
  | 0, _, _ => .outOfFuel "get_named_escape"
  | fuel + 1, l, buf =>
    if Lex.isAlpha l.cur then do
      let l1 ← l.advance
      nameLoop fuel l1.trimWs (buf ++ [l.cur])
    else .ok (buf, l)

def namedEscape (buf : Text) : Option Nat :=
  (Gen.namedEscapes.find? (fun e => e.1.contains (Lex.toStr (buf.map Lex.lower)))).map (·.2)

/-- `get_named_escape` (alias/lexer.rs:466-489): after the `@` -/
def getNamedEscape (l : LS) : LRes (Nat × LS) :=
  if l.cur != 123 then .err ⟨"ExpectedLeftCurly", l.pos, l.pos + 1⟩
  else do
    let l1 ← l.advance
    let l2 := l1.trimWs
    let (buf, l3) ← nameLoop (l2.src.length + 1) l2 []
    if l3.cur != 125 then .err ⟨"ExpectedRightCurly", l3.pos, l3.pos + 1⟩
    else do
      let l4 ← l3.advance
      match namedEscape buf with
      | some c => pure (c, l4)
      | none => .err ⟨"InvalidNamedEscape", l2.pos, l2.pos + 1⟩

/-- `get_escape` -/
def getEscape (l : LS) : LRes (Option (Nat × LS)) :=
  if l.cur = 64 then do
    let l1 ← l.advance
    let r ← getNamedEscape l1
    pure (some r)
  else if l.cur = 92 then do
    let l1 ← l.advance
    let r ← getUnicodeEscape l1
    pure (some r)
  else pure none

/-- the loop of `get_unicode_string` (alias/lexer.rs:509-520): returns the buffer, the end column and the state -/
def stringLoop : Nat → LS → Text → Nat → LRes (Text × Nat × LS)
  | 0, _, _, _ => .outOfFuel "get_unicode_string"
  | fuel + 1, l, buf, stop =>
    if l.src.isEmpty then .ok (buf, stop, l)
    else if isValidChar l.cur then do
      let l1 ← l.advance
      stringLoop fuel l1.trimWs (buf ++ [l.cur]) l1.pos
    else
      match getEscape l with
      | .ok (some (c, l1)) => stringLoop fuel l1.trimWs (buf ++ [c]) l1.pos
      | .ok none => .ok (buf, stop, l)
      | .err e => .err e
      | .panic p => .panic p
      | .outOfFuel p => .outOfFuel p

/-- `get_unicode_string` (alias/lexer.rs:503-523) -/
def getUnicodeString (s : ALS) : AStep :=
  if !isValidChar s.cur && s.cur != 64 && s.cur != 92 then .ok none
  else do
    let (buf, stop, l) ← stringLoop (s.ls.src.length + 1) s.ls [] (s.pos + 1)
    pure (some (⟨.string, buf, s.pos, stop⟩, { s with ls := l }))

def orElse (x : AStep) (y : Unit → AStep) : AStep :=
  match x with
  | .ok none => y ()
  | r => r

/-- the segment side of an alias line -/
def segmentSide (s : ALS) : AStep :=
  orElse (getBracket s) fun _ => orElse (getPrimative s) fun _ => orElse (getFeature s) fun _ =>
  orElse (getIpa s) fun _ => orElse (getDiacritic s) fun _ => getEnby s

/-- the replacement side -/
def replSide (s : ALS) : AStep :=
  orElse (getReplPlus s) fun _ => getUnicodeString s

/-- `get_next_token` (alias/lexer.rs:525-565); `derom` = the line is a deromaniser -/
def getNextToken (derom : Bool) (s0 : ALS) : LRes (AToken × ALS) :=
  let s := s0.trim
  if s.ls.src.isEmpty then .ok (⟨.eol, [], s.pos, s.pos + 1⟩, s)
  else
    match orElse (if derom = s.pastArrow then segmentSide s else replSide s) fun _ => getSpecialChar s with
    | .ok (some r) => .ok r
    | .ok none => .err ⟨"UnknownCharacter", s.pos, s.pos + 1⟩
    | .err e => .err e
    | .panic p => .panic p
    | .outOfFuel p => .outOfFuel p

/-- `get_line` -/
def lineLoop (derom : Bool) : Nat → ALS → List AToken → LRes (List AToken)
  | 0, _, _ => .outOfFuel "get_line"
  | fuel + 1, s, acc =>
    match getNextToken derom s with
    | .ok (t, s') => if t.kind = .eol then .ok (acc ++ [t]) else lineLoop derom fuel s' (acc ++ [t])
    | .err e => .err e
    | .panic p => .panic p
    | .outOfFuel p => .outOfFuel p

/-- `AliasLexer::new(kind, line).get_line()` -/
def lexLine (derom : Bool) (src : Text) : LRes (List AToken) :=
  lineLoop derom (src.length + 1) { ls := { src := src, pos := 0 } } []

end ALex
end Asca
