-- Root of the `AscaVerif` library: every model, lemma and property module.
import AscaVerif.Model.Basic
import AscaVerif.Model.Place
import AscaVerif.Model.Seg
import AscaVerif.Lemmas.Bits
import AscaVerif.Props.C18
