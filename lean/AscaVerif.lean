-- Root of the `AscaVerif` library: every model, lemma and property module.
import AscaVerif.Model.Basic
import AscaVerif.Model.Place
import AscaVerif.Model.Seg
import AscaVerif.Lemmas.Bits
import AscaVerif.Props.C18
import AscaVerif.Model.Ast
import AscaVerif.Model.Mods
import AscaVerif.Props.C04
import AscaVerif.Model.Syll
import AscaVerif.Props.C05
import AscaVerif.Model.Run
import AscaVerif.Lemmas.Run
import AscaVerif.Props.C10
import AscaVerif.Props.C11
import AscaVerif.Props.C16
